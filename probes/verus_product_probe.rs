// FEASIBILITY PROBE (not framework code): product phase of U256::mul_without_cond_subtract
// (src/u256.rs:266-276) on an 8-limb array; rules R1 (iterator adaptors -> index loops), R4 (MulBuffer -> array view).
use vstd::prelude::*;
verus! {
pub open spec fn B() -> nat { 0x1_0000_0000_0000_0000 }
pub open spec fn pw(k: int) -> nat decreases k { if k <= 0 { 1 } else { B() * pw(k - 1) } }
pub open spec fn pre(s: Seq<u64>, k: int) -> nat decreases k
{ if k <= 0 { 0 } else { pre(s, k - 1) + s[k - 1] as nat * pw(k - 1) } }
proof fn lemma_split(tmp: u128)
    ensures tmp as nat == ((tmp >> 64) as u64) as nat * B() + (tmp as u64) as nat,
{ assert(tmp == ((tmp >> 64) as u64 as u128) * 0x1_0000_0000_0000_0000u128 + (tmp as u64 as u128)) by (bit_vector); }
proof fn lemma_mulbound(b: u64, c: u64)
    ensures (b as nat) * (c as nat) <= 0xffff_ffff_ffff_ffffnat * 0xffff_ffff_ffff_ffffnat,
            (b as u128) * (c as u128) == (b as nat) * (c as nat),
{ assert((b as nat) * (c as nat) <= 0xffff_ffff_ffff_ffffnat * 0xffff_ffff_ffff_ffffnat) by (nonlinear_arith)
        requires (b as nat) <= 0xffff_ffff_ffff_ffffnat, (c as nat) <= 0xffff_ffff_ffff_ffffnat; }
proof fn lemma_pre_ext(a: Seq<u64>, b: Seq<u64>, k: int)
    requires forall|t: int| 0 <= t < k ==> a[t] == b[t],
    ensures pre(a, k) == pre(b, k),
    decreases k
{ if k > 0 { lemma_pre_ext(a, b, k - 1); } }
proof fn lemma_tail(s: Seq<u64>, k: int, n: int)
    requires 0 <= k <= n, forall|t: int| k <= t < n ==> s[t] == 0,
    ensures pre(s, n) == pre(s, k),
    decreases n - k
{ if k < n { lemma_tail(s, k, n - 1); assert(s[n-1] as nat * pw(n-1) == 0) by(nonlinear_arith) requires s[n-1] == 0; } }
proof fn lemma_pw_add(a: int, b: int)
    requires a >= 0, b >= 0,
    ensures pw(a + b) == pw(a) * pw(b),
    decreases b
{
    if b == 0 { assert(pw(a) * 1 == pw(a)); }
    else { lemma_pw_add(a, b - 1); assert(pw(a + b) == B() * pw(a + b - 1));
           assert(B() * (pw(a) * pw(b-1)) == pw(a) * (B() * pw(b-1))) by(nonlinear_arith); }
}

fn product(d: &[u64; 4], e: &[u64; 4]) -> (r: [u64; 8])
    ensures pre(r@, 8) == pre(d@, 4) * pre(e@, 4),
{
    let mut r = [0u64; 8];
    assert(forall|k: int| 0 <= k < 8 ==> r@[k] == 0);
    assert(pre(r@, 8) == 0) by { lemma_tail(r@, 0, 8); }
    assert(pre(d@, 0) * pre(e@, 4) == 0) by(nonlinear_arith) requires pre(d@, 0) == 0;
    for i in 0..4
        invariant
            pre(r@, 8) == pre(d@, i as int) * pre(e@, 4),
            forall|k: int| i + 4 <= k < 8 ==> r@[k] == 0,
    {
        let mut carry = 0u64;
        let ghost r0 = r@;
        assert(d@[i as int] as nat * pw(i as int) * pre(e@, 0) == 0) by(nonlinear_arith) requires pre(e@, 0) == 0;
        for j in 0..4
            invariant
                0 <= i < 4,
                forall|k: int| i + 4 <= k < 8 ==> r@[k] == 0,
                forall|k: int| i + j <= k < 8 ==> #[trigger] r@[k] == r0[k],
                pre(r@, i + j) + carry as nat * pw(i + j) + (pre(r0, 8) - pre(r0, i + j))
                    == pre(r0, 8) + d@[i as int] as nat * pw(i as int) * pre(e@, j as int),
        {
            let k = i + j;
            let di = d[i]; let ej = e[j];
            proof { lemma_mulbound(di, ej); }
            let tmp = (r[k] as u128) + (di as u128 * ej as u128) + (carry as u128);
            proof { lemma_split(tmp); }
            let ghost carry_old = carry;
            let ghost r_old = r@;
            carry = #[verifier::truncate] ((tmp >> 64) as u64);
            r[k] = #[verifier::truncate] (tmp as u64);
            proof {
                assert(pre(r@, k as int) == pre(r_old, k as int)) by { lemma_pre_ext(r@, r_old, k as int); }
                assert(pre(r0, k + 1) == pre(r0, k as int) + r0[k as int] as nat * pw(k as int));
                assert(pw(k + 1) == B() * pw(k as int));
                assert(pw(i + j) == pw(i as int) * pw(j as int)) by { lemma_pw_add(i as int, j as int); }
                let P = pw(k as int); let x = r_old[k as int] as nat; let m = (di as nat) * (ej as nat);
                assert((tmp as u64) as nat * P + (carry as nat) * (B() * P) == (x + m + carry_old as nat) * P) by (nonlinear_arith)
                    requires tmp as nat == (carry as nat) * B() + (tmp as u64) as nat, tmp as nat == x + m + carry_old as nat;
                assert((x + m + carry_old as nat) * P == x * P + m * P + carry_old as nat * P) by (nonlinear_arith);
                assert(d@[i as int] as nat * pw(i as int) * pre(e@, j + 1) == d@[i as int] as nat * pw(i as int) * pre(e@, j as int) + m * P) by (nonlinear_arith)
                    requires pre(e@, j + 1) == pre(e@, j as int) + ej as nat * pw(j as int), P == pw(i as int) * pw(j as int), m == (d@[i as int] as nat) * (ej as nat);
            }
        }
        proof { assert(r@[i + 4] == 0); }
        let ghost r_old = r@;
        r[i + 4] = carry;
        proof {
            lemma_pre_ext(r@, r_old, i + 4);
            lemma_tail(r@, i + 5, 8);
            lemma_tail(r0, i + 4, 8);
            lemma_tail(r_old, i + 4, 8);
            assert(pre(r@, i + 5) == pre(r@, i + 4) + carry as nat * pw(i + 4));
            assert(pre(d@, i + 1) * pre(e@, 4) == pre(d@, i as int) * pre(e@, 4) + d@[i as int] as nat * pw(i as int) * pre(e@, 4)) by (nonlinear_arith)
                requires pre(d@, i + 1) == pre(d@, i as int) + d@[i as int] as nat * pw(i as int);
        }
    }
    r
}
}
fn main() {}
