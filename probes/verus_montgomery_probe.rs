// FEASIBILITY PROBE (not framework code): the body of U256::mul_without_cond_subtract
// (src/u256.rs:265-293) on an 8-limb array, with the invariants needed by Verus.
// Differences from the real text: MulBuffer<4> -> [u64; 8] (rule R4), iterator
// adaptors -> index loops (rule R1), macros expanded by rustc (X-exp).
use vstd::prelude::*;
use vstd::arithmetic::div_mod::*;
verus! {
pub open spec fn B() -> nat { 0x1_0000_0000_0000_0000 }
pub open spec fn pw(k: int) -> nat decreases k { if k <= 0 { 1 } else { B() * pw(k - 1) } }
pub open spec fn pre(s: Seq<u64>, k: int) -> nat decreases k
{ if k <= 0 { 0 } else { pre(s, k - 1) + s[k - 1] as nat * pw(k - 1) } }

proof fn lemma_split(tmp: u128)
    ensures tmp as nat == ((tmp >> 64) as u64) as nat * B() + (tmp as u64) as nat,
{ assert(tmp == ((tmp >> 64) as u64 as u128) * 0x1_0000_0000_0000_0000u128 + (tmp as u64 as u128)) by (bit_vector); }

proof fn lemma_mulbound(b: u64, c: u64)
    ensures (b as nat) * (c as nat) <= 0xffff_ffff_ffff_ffffnat * 0xffff_ffff_ffff_ffffnat,
            (b as u128) * (c as u128) == (b as nat) * (c as nat),
{ assert((b as nat) * (c as nat) <= 0xffff_ffff_ffff_ffffnat * 0xffff_ffff_ffff_ffffnat) by (nonlinear_arith)
        requires (b as nat) <= 0xffff_ffff_ffff_ffffnat, (c as nat) <= 0xffff_ffff_ffff_ffffnat; }

proof fn lemma_pre_ext(a: Seq<u64>, b: Seq<u64>, k: int)
    requires forall|t: int| 0 <= t < k ==> a[t] == b[t],
    ensures pre(a, k) == pre(b, k),
    decreases k
{ if k > 0 { lemma_pre_ext(a, b, k - 1); } }

proof fn lemma_tail(s: Seq<u64>, k: int, n: int)
    requires 0 <= k <= n, forall|t: int| k <= t < n ==> s[t] == 0,
    ensures pre(s, n) == pre(s, k),
    decreases n - k
{ if k < n { lemma_tail(s, k, n - 1); assert(s[n-1] as nat * pw(n-1) == 0) by(nonlinear_arith) requires s[n-1] == 0; } }

proof fn lemma_pw_add(a: int, b: int)
    requires a >= 0, b >= 0,
    ensures pw(a + b) == pw(a) * pw(b),
    decreases b
{
    if b == 0 { assert(pw(a) * 1 == pw(a)); }
    else { lemma_pw_add(a, b - 1); assert(pw(a + b) == B() * pw(a + b - 1));
           assert(B() * (pw(a) * pw(b-1)) == pw(a) * (B() * pw(b-1))) by(nonlinear_arith); }
}
// pre(s, hi) - pre(s, lo) only depends on s[lo..hi]
proof fn lemma_pre_range(a: Seq<u64>, b: Seq<u64>, lo: int, hi: int)
    requires 0 <= lo <= hi, forall|t: int| lo <= t < hi ==> a[t] == b[t],
    ensures pre(a, hi) - pre(a, lo) == pre(b, hi) - pre(b, lo),
    decreases hi - lo
{ if lo < hi { lemma_pre_range(a, b, lo, hi - 1); } }

pub open spec fn mont_inv_ok(m0: u64, inv: u64) -> bool { (m0 as nat * inv as nat + 1) % B() == 0 }

pub open spec fn red_rel(k: nat, r: Seq<u64>, c: u64, t: Seq<u64>, m: Seq<u64>) -> bool {
    (pre(r, 8) - pre(r, 4)) + c as nat * pw(8) == pre(t, 8) + k * pre(m, 4) && k < pw(4)
}
// Montgomery reduction phase: r holds T (8 limbs); returns (carry2, hi limbs)
fn reduce(r_in: [u64; 8], m: &[u64; 4], inv: u64) -> (res: (u64, [u64; 8]))
    requires mont_inv_ok(m[0], inv),
    ensures exists|k: nat| #[trigger] red_rel(k, res.1@, res.0, r_in@, m@),
{
    let mut r = r_in;
    let mut carry2 = 0u64;
    let ghost mut kacc: nat = 0;
    proof { assert(0 * pre(m@, 4) == 0); reveal_with_fuel(pre, 1); reveal_with_fuel(pw, 5); }
    for i in 0..4
        invariant
            mont_inv_ok(m[0], inv),
            (pre(r@, 8) - pre(r@, i as int)) + carry2 as nat * pw(4 + i) == pre(r_in@, 8) + kacc * pre(m@, 4),
            kacc < pw(i as int),
            carry2 <= 1,
    {
        let ghost r0 = r@;
        let ghost c20 = carry2;
        let k = r[i].wrapping_mul(inv);
        let mut carry = 0u64;
        // mac_discard(r[i], k, m[0], &mut carry)
        proof { lemma_mulbound(k, m[0]); }
        let tmp0 = (r[i] as u128) + (k as u128 * m[0] as u128);
        carry = #[verifier::truncate] ((tmp0 >> 64) as u64);
        proof {
            lemma_split(tmp0);
            // low word is zero: r[i] + k*m0 == 0 mod B
            lemma_low_zero(r[i as int], k, m[0], inv);
            lemma_lo_zero_u128(tmp0);
            assert((tmp0 as u64) == 0);
            reveal_with_fuel(pre, 2); reveal_with_fuel(pw, 2);
            assert(m@[0] as nat * pw(0) == m@[0] as nat) by(nonlinear_arith) requires pw(0) == 1;
            assert(pre(m@, 1) == m@[0] as nat);
            assert(pw(i + 1) == B() * pw(i as int));
            assert(pre(r0, i + 1) - pre(r0, i as int) == r0[i as int] as nat * pw(i as int));
            assert(carry as nat * (B() * pw(i as int)) == (r0[i as int] as nat) * pw(i as int) + k as nat * (m@[0] as nat) * pw(i as int)) by(nonlinear_arith)
                requires carry as nat * B() == r0[i as int] as nat + k as nat * (m@[0] as nat);
        }
        for j in 1..4
            invariant
                0 <= i < 4, 1 <= j <= 4,
                forall|t: int| 0 <= t <= i ==> #[trigger] r@[t] == r0[t],
                forall|t: int| i + j <= t < 8 ==> #[trigger] r@[t] == r0[t],
                (pre(r@, i + j) - pre(r@, i + 1)) + carry as nat * pw(i + j)
                    == (pre(r0, i + j) - pre(r0, i as int)) + k as nat * pre(m@, j as int) * pw(i as int),
        {
            let kk = i + j;
            proof { lemma_mulbound(k, m[j as int]); }
            let tmp = (r[kk] as u128) + (k as u128 * m[j] as u128) + (carry as u128);
            proof { lemma_split(tmp); }
            let ghost carry_old = carry; let ghost r_old = r@;
            carry = #[verifier::truncate] ((tmp >> 64) as u64);
            r[kk] = #[verifier::truncate] (tmp as u64);
            proof {
                lemma_pre_range(r@, r_old, i + 1, kk as int);
                lemma_pw_add(i as int, j as int);
                let P = pw(kk as int); let x = r_old[kk as int] as nat; let mm = (k as nat) * (m@[j as int] as nat);
                assert(pw(kk + 1) == B() * P);
                assert((tmp as u64) as nat * P + (carry as nat) * (B() * P) == (x + mm + carry_old as nat) * P) by (nonlinear_arith)
                    requires tmp as nat == (carry as nat) * B() + (tmp as u64) as nat, tmp as nat == x + mm + carry_old as nat;
                assert((x + mm + carry_old as nat) * P == x * P + mm * P + carry_old as nat * P) by (nonlinear_arith);
                assert(k as nat * pre(m@, j + 1) * pw(i as int) == k as nat * pre(m@, j as int) * pw(i as int) + mm * P) by (nonlinear_arith)
                    requires pre(m@, j + 1) == pre(m@, j as int) + m@[j as int] as nat * pw(j as int), P == pw(i as int) * pw(j as int), mm == (k as nat) * (m@[j as int] as nat);
            }
        }
        // r.b1[i] = adc!(r.b1[i], carry, &mut carry2)
        let tmp2 = (r[4 + i] as u128) + (carry as u128) + (carry2 as u128);
        proof { lemma_split(tmp2); }
        let ghost r_mid = r@;
        carry2 = #[verifier::truncate] ((tmp2 >> 64) as u64);
        r[4 + i] = #[verifier::truncate] (tmp2 as u64);
        proof {
            assert(carry2 <= 1) by(bit_vector) requires carry2 == (tmp2 >> 64) as u64, tmp2 <= 0x1_ffff_ffff_ffff_fffeu128 + 1;
            kacc = kacc + k as nat * pw(i as int);
            lemma_reduce_round(r0, r_mid, r@, r_in@, m@, i as int, k, carry, c20, carry2, (kacc - k as nat * pw(i as int)) as nat);
        }
    }
    proof { assert(red_rel(kacc, r@, carry2, r_in@, m@)); }
    let res = (carry2, r);
    proof { assert(red_rel(kacc, res.1@, res.0, r_in@, m@)); }
    res
}

proof fn lemma_low_zero(ri: u64, k: u64, m0: u64, inv: u64)
    requires mont_inv_ok(m0, inv), k as nat == (ri as nat * inv as nat) % B(),
    ensures (ri as nat + k as nat * m0 as nat) % B() == 0,
{
    let b = B() as int; let x = ri as int; let v = inv as int; let m = m0 as int;
    // k*m0 ≡ ri*inv*m0 (mod B)
    lemma_mul_mod_noop_left(x * v, m, b);
    assert(((x * v) % b) * m % b == (x * v * m) % b);
    // ri + ri*inv*m0 = ri*(1 + inv*m0), and (1 + inv*m0) % B == 0
    assert(x + x * v * m == x * (m * v + 1)) by(nonlinear_arith);
    lemma_mul_mod_noop_right(x, m * v + 1, b);
    assert((x * ((m * v + 1) % b)) % b == (x * (m * v + 1)) % b);
    assert((m * v + 1) % b == 0);
    assert(x * 0 == 0);
    assert((x + x * v * m) % b == 0);
    // replace x*v*m by (k*m0) which is congruent
    lemma_add_mod_noop(x, x * v * m, b);
    lemma_add_mod_noop(x, (k as int) * m, b);
    assert((k as int) * m % b == (x * v * m) % b);
}

proof fn lemma_lo_zero_u128(tmp: u128)
    requires (tmp as nat) % B() == 0,
    ensures (tmp as u64) == 0,
{
    lemma_split(tmp);
    let hi = ((tmp >> 64) as u64) as int; let lo = (tmp as u64) as int; let b = B() as int;
    lemma_mod_multiples_vanish(hi, lo, b);
    assert((hi * b + lo) % b == lo % b);
    lemma_small_mod(lo as nat, b as nat);
}

proof fn lemma_reduce_round(r0: Seq<u64>, r_mid: Seq<u64>, r1: Seq<u64>, t: Seq<u64>, m: Seq<u64>, i: int, k: u64, carry: u64, c20: u64, c21: u64, kold: nat)
    requires 0 <= i < 4, r0.len() == 8, r_mid.len() == 8, r1.len() == 8,
        (pre(r0, 8) - pre(r0, i)) + c20 as nat * pw(4 + i) == pre(t, 8) + kold * pre(m, 4),
        kold < pw(i),
        (pre(r_mid, i + 4) - pre(r_mid, i + 1)) + carry as nat * pw(i + 4)
            == (pre(r0, i + 4) - pre(r0, i)) + k as nat * pre(m, 4) * pw(i),
        forall|x: int| i + 4 <= x < 8 ==> #[trigger] r_mid[x] == r0[x],
        forall|x: int| 0 <= x < 8 && x != i + 4 ==> #[trigger] r1[x] == r_mid[x],
        r_mid[i + 4] as nat + carry as nat + c20 as nat == c21 as nat * B() + r1[i + 4] as nat,
    ensures (pre(r1, 8) - pre(r1, i + 1)) + c21 as nat * pw(5 + i) == pre(t, 8) + (kold + k as nat * pw(i)) * pre(m, 4),
            kold + k as nat * pw(i) < pw(i + 1)
{
    lemma_pre_range(r1, r_mid, i + 1, i + 4);
    lemma_pre_range(r1, r_mid, i + 5, 8);
    lemma_pre_range(r_mid, r0, i + 5, 8);
    assert(pre(r1, i + 5) == pre(r1, i + 4) + r1[i + 4] as nat * pw(i + 4));
    assert(pre(r0, i + 5) == pre(r0, i + 4) + r0[i + 4] as nat * pw(i + 4));
    assert(pw(5 + i) == B() * pw(4 + i));
    let P = pw(4 + i);
    assert(r1[i + 4] as nat * P + c21 as nat * (B() * P) == (r0[i + 4] as nat + carry as nat + c20 as nat) * P) by(nonlinear_arith)
        requires r0[i + 4] as nat + carry as nat + c20 as nat == c21 as nat * B() + r1[i + 4] as nat;
    assert((r0[i + 4] as nat + carry as nat + c20 as nat) * P == r0[i + 4] as nat * P + carry as nat * P + c20 as nat * P) by(nonlinear_arith);
    assert((kold + k as nat * pw(i)) * pre(m, 4) == kold * pre(m, 4) + k as nat * pre(m, 4) * pw(i)) by(nonlinear_arith);
    assert(pw(i + 1) == B() * pw(i));
    assert(kold + k as nat * pw(i) < B() * pw(i)) by(nonlinear_arith)
        requires kold < pw(i), (k as nat) < B();
}
}
fn main() {}
