//! Replay / probe driver: executes functions of the real sm9_core crate (built from
//! /repo's current working tree with --cfg john_yu_sm9_core_verif) on exact inputs.
//! Protocol (stdin, one request per line):  <fn> <hex|-> <hex|-> ...
//! Reply (stdout, one line):  ok <hex|-> ... | panic <message> | unknown
use sm9_core::*;
use std::io::{BufRead, Write};
use std::panic;

/// RNG that replays a caller-supplied byte stream cyclically and panics once more than `limit` bytes were requested
/// (a watchdog: a sampling loop that never accepts must show up as a failed call, not as a hang of the driver).
struct StreamRng { data: Vec<u8>, pos: usize, used: u64, limit: u64 }
impl rand::RngCore for StreamRng {
    fn next_u32(&mut self) -> u32 { let mut b = [0u8; 4]; self.fill_bytes(&mut b); u32::from_le_bytes(b) }
    fn next_u64(&mut self) -> u64 { let mut b = [0u8; 8]; self.fill_bytes(&mut b); u64::from_le_bytes(b) }
    fn fill_bytes(&mut self, dest: &mut [u8]) {
        for d in dest.iter_mut() {
            self.used += 1;
            if self.used > self.limit { panic!("rng watchdog: more than {} random bytes requested by one call", self.limit); }
            *d = if self.data.is_empty() { 0 } else { self.data[self.pos % self.data.len()] };
            self.pos += 1;
        }
    }
    fn try_fill_bytes(&mut self, dest: &mut [u8]) -> Result<(), rand::Error> { self.fill_bytes(dest); Ok(()) }
}
fn stream(a: &[u8]) -> StreamRng { StreamRng { data: a.to_vec(), pos: 0, used: 0, limit: 1 << 16 } }

fn hexd(s: &str) -> Vec<u8> {
    if s == "-" {
        return vec![];
    }
    (0..s.len() / 2).map(|i| u8::from_str_radix(&s[2 * i..2 * i + 2], 16).unwrap()).collect()
}
fn hexe(b: &[u8]) -> String {
    if b.is_empty() {
        return "-".into();
    }
    b.iter().map(|x| format!("{:02x}", x)).collect()
}
fn fqv(b: &[u8]) -> Fq {
    // canonical value bytes (must be < q): strict parse through the 1..=31 / 32 byte path is reducing,
    // so use decimal-free route: from_slice of 32 bytes reduces; callers pass values < q
    Fq::from_slice(b).unwrap()
}
fn fq2v(b: &[u8]) -> Fq2 {
    // c0 || c1 canonical
    Fq2::new(fqv(&b[..32]), fqv(&b[32..]))
}
fn g1v(a: &[u8]) -> G1 {
    G1::new(fqv(&a[..32]), fqv(&a[32..64]), fqv(&a[64..]))
}
fn g2v(a: &[u8]) -> G2 {
    G2::new(fq2v(&a[..64]), fq2v(&a[64..128]), fq2v(&a[128..]))
}
fn fq2_bytes(x: Fq2) -> Vec<u8> {
    // canonical c0 || c1
    let mut v = x.real().to_slice().to_vec();
    v.extend(x.imaginary().to_slice());
    v
}
fn curve_err(e: &CurveError) -> u8 {
    match e {
        CurveError::InvalidEncoding => 1,
        CurveError::NotMember => 2,
        CurveError::Field(_) => 3,
        CurveError::ToAffineConversion => 4,
    }
}

fn public(name: &str, a: &[Vec<u8>]) -> Option<Vec<Vec<u8>>> {
    Some(match name {
        "fr_from_slice" => match Fr::from_slice(&a[0]) { Some(x) => vec![vec![1], x.to_slice().to_vec()], None => vec![vec![0]] },
        "fq_from_slice" => match Fq::from_slice(&a[0]) { Some(x) => vec![vec![1], x.to_slice().to_vec()], None => vec![vec![0]] },
        "fq2_from_slice" => match Fq2::from_slice(&a[0]) { Some(x) => vec![vec![1], x.to_slice().to_vec()], None => vec![vec![0]] },
        "fr_try_from" => match Fr::try_from(&a[0][..]) { Ok(x) => vec![vec![1], x.to_slice().to_vec()], Err(_) => vec![vec![0]] },
        "fq_try_from" => match Fq::try_from(&a[0][..]) { Ok(x) => vec![vec![1], x.to_slice().to_vec()], Err(_) => vec![vec![0]] },
        "fr_from_hash" => match Fr::from_hash(&a[0]) { Some(x) => vec![vec![1], x.to_slice().to_vec()], None => vec![vec![0]] },
        "fr_from_str" => match std::str::from_utf8(&a[0]) { Ok(s) => match Fr::from_str(s) { Ok(x) => vec![vec![1], x.to_slice().to_vec()], Err(_) => vec![vec![0]] }, Err(_) => vec![vec![2]] },
        "fq_from_str" => match std::str::from_utf8(&a[0]) { Ok(s) => match Fq::from_str(s) { Ok(x) => vec![vec![1], x.to_slice().to_vec()], Err(_) => vec![vec![0]] }, Err(_) => vec![vec![2]] },
        "fr_interpret" => { let mut b = [0u8; 64]; b.copy_from_slice(&a[0]); vec![Fr::interpret(&b).to_slice().to_vec()] }
        "fq_interpret" => { let mut b = [0u8; 64]; b.copy_from_slice(&a[0]); vec![Fq::interpret(&b).to_slice().to_vec()] }
        "fr_set_bit" => { let mut x = Fr::from_slice(&a[0]).unwrap(); let n = a[1].iter().fold(0usize, |n, b| (n << 8) | *b as usize); x.set_bit(n, a[2][0] != 0); vec![x.to_slice().to_vec()] }
        "fq_to_big_endian" => { let n = a[1].iter().fold(0usize, |n, b| (n << 8) | *b as usize); let mut buf = vec![0xAA; n]; match fqv(&a[0]).to_big_endian(&mut buf) { Ok(()) => vec![vec![1], buf], Err(_) => vec![vec![0], buf] } }
        "fq_is_even" => vec![vec![fqv(&a[0]).is_even() as u8]],
        "fq2_is_even" => vec![vec![fq2v(&a[0]).is_even() as u8]],
        "fq2_to_slice" => vec![fq2v(&a[0]).to_slice().to_vec()],
        "fq2_sqrt" => match fq2v(&a[0]).sqrt() { Some(s) => vec![vec![1], fq2_bytes(s)], None => vec![vec![0]] },
        "fq_sqrt" => match fqv(&a[0]).sqrt() { Some(s) => vec![vec![1], s.to_slice().to_vec()], None => vec![vec![0]] },
        "g1_from_slice" => match G1::from_slice(&a[0]) { Ok(p) => vec![vec![1], p.to_slice().to_vec()], Err(e) => vec![vec![0], vec![curve_err(&e)]] },
        "g1_from_uncompressed" => match G1::from_uncompressed(&a[0]) { Ok(p) => vec![vec![1], p.to_uncompressed().to_vec()], Err(e) => vec![vec![0], vec![curve_err(&e)]] },
        "g1_from_compressed" => match G1::from_compressed(&a[0]) { Ok(p) => vec![vec![1], p.to_compressed().to_vec(), p.to_slice().to_vec()], Err(e) => vec![vec![0], vec![curve_err(&e)]] },
        "g2_from_slice" => match G2::from_slice(&a[0]) { Ok(p) => vec![vec![1], p.to_slice().to_vec()], Err(e) => vec![vec![0], vec![curve_err(&e)]] },
        "g2_from_uncompressed" => match G2::from_uncompressed(&a[0]) { Ok(p) => vec![vec![1], p.to_uncompressed().to_vec()], Err(e) => vec![vec![0], vec![curve_err(&e)]] },
        "g2_from_compressed" => match G2::from_compressed(&a[0]) { Ok(p) => vec![vec![1], p.to_compressed().to_vec(), p.to_slice().to_vec()], Err(e) => vec![vec![0], vec![curve_err(&e)]] },
        "g1_encode" => { let p = g1v(&a[0]); vec![p.to_slice().to_vec(), p.to_uncompressed().to_vec(), p.to_compressed().to_vec()] }
        "g2_encode" => { let p = g2v(&a[0]); vec![p.to_slice().to_vec(), p.to_uncompressed().to_vec(), p.to_compressed().to_vec()] }
        "g1_normalize" => { let mut p = g1v(&a[0]); p.normalize(); vec![p.x().to_slice().to_vec(), p.y().to_slice().to_vec(), p.z().to_slice().to_vec()] }
        "g1_affine_new" => match AffineG1::new(fqv(&a[0]), fqv(&a[1])) { Ok(_) => vec![vec![1]], Err(GroupError::NotOnCurve) => vec![vec![0], vec![1]], Err(GroupError::NotInSubgroup) => vec![vec![0], vec![2]] },
        "g2_affine_new" => match AffineG2::new(fq2v(&a[0]), fq2v(&a[1])) { Ok(_) => vec![vec![1]], Err(GroupError::NotOnCurve) => vec![vec![0], vec![1]], Err(GroupError::NotInSubgroup) => vec![vec![0], vec![2]] },
        // lib.rs group wrappers: [p+q, p-q, -p, p*k, k*p, normalize(p), is_zero(p), p==q] as canonical x||y||z
        "g1_wrap_ops" => { let (p, q) = (g1v(&a[0]), g1v(&a[1])); let k = Fr::from_slice(&a[2]).unwrap(); let enc = |g: G1| { let mut v = g.x().to_slice().to_vec(); v.extend(g.y().to_slice()); v.extend(g.z().to_slice()); v };
            let mut n = p; n.normalize(); vec![enc(p + q), enc(p - q), enc(-p), enc(p * k), enc(k * p), enc(n), vec![p.is_zero() as u8], vec![(p == q) as u8]] }
        "g2_wrap_ops" => { let (p, q) = (g2v(&a[0]), g2v(&a[1])); let k = Fr::from_slice(&a[2]).unwrap(); let enc = |g: G2| { let mut v = fq2_bytes(g.x()); v.extend(fq2_bytes(g.y())); v.extend(fq2_bytes(g.z())); v };
            let mut n = p; n.normalize(); vec![enc(p + q), enc(p - q), enc(-p), enc(p * k), enc(k * p), enc(n), vec![p.is_zero() as u8], vec![(p == q) as u8]] }
        // Gt public operations on g = pairing(p, q), h = pairing(p2, q): [g*h, h*g, g*one, one*g, g^k, inverse(g), g*inverse(g), g == h, one]
        "gt_ops" => { let g = pairing(g1v(&a[0]), g2v(&a[1])); let h = pairing(g1v(&a[2]), g2v(&a[1])); let k = Fr::from_slice(&a[3]).unwrap();
            let gi = g.inverse();
            vec![(g * h).to_slice().to_vec(), (h * g).to_slice().to_vec(), (g * Gt::one()).to_slice().to_vec(), (Gt::one() * g).to_slice().to_vec(),
                 g.pow(k).to_slice().to_vec(), match gi { Some(x) => x.to_slice().to_vec(), None => vec![] },
                 match gi { Some(x) => (g * x).to_slice().to_vec(), None => vec![] }, vec![(g == h) as u8], Gt::one().to_slice().to_vec(), g.to_slice().to_vec(), h.to_slice().to_vec()] }
        // random elements from an exact RNG byte stream: [canonical encoding(s), bytes consumed]
        "fr_random" => { let mut r = stream(&a[0]); let x = Fr::random(&mut r); vec![x.to_slice().to_vec(), r.used.to_be_bytes().to_vec(), vec![x.is_zero() as u8], vec![(Fr::from_slice(&x.to_slice()) == Some(x)) as u8]] }
        "pairing" => vec![pairing(g1v(&a[0]), g2v(&a[1])).to_slice().to_vec()],
        "fast_pairing" => vec![fast_pairing(g1v(&a[0]), g2v(&a[1])).to_slice().to_vec()],
        "prepared_pairing" => { let p = G2Prepared::from(g2v(&a[1])); let mut out = vec![]; for k in 0..a.len() { if k != 1 { out.push(p.pairing(&g1v(&a[k])).to_slice().to_vec()); } } out }
        _ => return None,
    })
}

fn main() {
    panic::set_hook(Box::new(|_| {}));
    let stdin = std::io::stdin();
    let stdout = std::io::stdout();
    for line in stdin.lock().lines() {
        let line = line.unwrap();
        let mut it = line.split_whitespace();
        let name = match it.next() { Some(n) => n.to_string(), None => continue };
        let args: Vec<Vec<u8>> = it.map(hexd).collect();
        let n2 = name.clone();
        let r = panic::catch_unwind(move || {
            if let Some(p) = n2.strip_prefix("pub::") {
                public(p, &args)
            } else {
                sm9_core::verif_hooks::call(&n2, &args)
            }
        });
        let mut o = stdout.lock();
        match r {
            Ok(Some(v)) => { let s: Vec<String> = v.iter().map(|b| hexe(b)).collect(); writeln!(o, "ok {}", s.join(" ")).unwrap(); }
            Ok(None) => writeln!(o, "unknown").unwrap(),
            Err(e) => {
                let msg = if let Some(s) = e.downcast_ref::<&str>() { s.to_string() } else if let Some(s) = e.downcast_ref::<String>() { s.clone() } else { "?".into() };
                writeln!(o, "panic {}", msg.replace('\n', " ")).unwrap();
            }
        }
        o.flush().unwrap();
    }
}
