//! Kani harnesses for sm9_core (E2 of /verif/DESIGN.md).  This file is injected as `src/verif_kani.rs`
//! (plus one line `#[cfg(kani)] mod verif_kani;` at the end of lib.rs) into a scratch copy of /repo on every
//! run; it is never committed to the repository.  ark-ff is built without its `asm` feature (assumption A6).
//!
//! Conventions
//!  * every harness is loop-free after unwinding (unwinding assertions on) over full-domain symbolic inputs:
//!    a passing harness is a complete proof of its assertions and of all Kani default checks
//!    (overflow, shift, index, unwrap, debug_assert, unreachable) for the code it reaches;
//!  * heavy arithmetic callees are replaced by *contract stubs*: a stub returns any value allowed by the callee's
//!    contract (DESIGN §3.2), or is value-transparent where the caller only moves the value around.
#![allow(dead_code)]
#![allow(unused_imports)]
use crate::fields::{FieldElement, Fq as IFq, Fq2 as IFq2, Fr as IFr};
use crate::groups::{AffineG, GroupParams, G as IG, G1Params, G2Params};
use crate::u256::U256;
use crate::u512::U512;
use crate::*;
#[allow(unused_imports)]
use alloc::{vec, vec::Vec};   // for the unit tests that Kani's concrete playback injects

const FQ: [u64; 4] = [0xE56F9B27E351457D, 0x21F2934B1A7AEEDB, 0xD603AB4FF58EC745, 0xB640000002A3A6F1];
const FR: [u64; 4] = [0xE56EE19CD69ECF25, 0x49F2934B18EA8BEE, 0xD603AB4FF58EC744, 0xB640000002A3A6F1];
const FQ_R2: [u64; 4] = [0x27DEA312B417E2D2, 0x88F8105FAE1A5D3F, 0xE479B522D6706E7B, 0x2EA795A656F62FBD];
const FR_R2: [u64; 4] = [0x7598CD79CD750C35, 0xE4A08110BB6DAEAB, 0xBFEE4BAE7D78A1F9, 0x8894F5D163695D0E];

// ------------------------------------------------------------------------------------------------
// independent wide reference arithmetic (5 limbs), written from the mathematical definitions

type W = [u64; 5];

fn w(a: &[u64; 4]) -> W {
    [a[0], a[1], a[2], a[3], 0]
}
fn limbs(x: &U256) -> [u64; 4] {
    [x[0], x[1], x[2], x[3]]
}
fn wadd(a: &W, b: &W) -> W {
    let mut r = [0u64; 5];
    let mut c = 0u128;
    let mut i = 0;
    while i < 5 {
        let t = a[i] as u128 + b[i] as u128 + c;
        r[i] = t as u64;
        c = t >> 64;
        i += 1;
    }
    r
}
fn wsub(a: &W, b: &W) -> W {
    // a - b for a >= b
    let mut r = [0u64; 5];
    let mut br = 0i128;
    let mut i = 0;
    while i < 5 {
        let t = a[i] as i128 - b[i] as i128 - br;
        if t < 0 {
            r[i] = (t + (1i128 << 64)) as u64;
            br = 1;
        } else {
            r[i] = t as u64;
            br = 0;
        }
        i += 1;
    }
    r
}
fn wge(a: &W, b: &W) -> bool {
    let mut i = 5;
    while i > 0 {
        i -= 1;
        if a[i] > b[i] {
            return true;
        }
        if a[i] < b[i] {
            return false;
        }
    }
    true
}
fn eq5(a: &W, b: &W) -> bool {
    let mut i = 0;
    let mut ok = true;
    while i < 5 {
        ok = ok && a[i] == b[i];
        i += 1;
    }
    ok
}
fn eq4(a: &[u64; 4], b: &[u64; 4]) -> bool {
    a[0] == b[0] && a[1] == b[1] && a[2] == b[2] && a[3] == b[3]
}
fn wlt4(a: &[u64; 4], b: &[u64; 4]) -> bool {
    !wge(&w(a), &w(b))
}
fn wmod_once(a: &W, p: &W) -> W {
    if wge(a, p) {
        wsub(a, p)
    } else {
        *a
    }
}
fn any_below(p: &[u64; 4]) -> [u64; 4] {
    let a: [u64; 4] = kani::any();
    kani::assume(wlt4(&a, p));
    a
}
fn modulus(which: bool) -> [u64; 4] {
    if which {
        FQ
    } else {
        FR
    }
}

// ------------------------------------------------------------------------------------------------
// L1: linear operations of U256 are exact modular arithmetic (both moduli), results canonical

#[kani::proof]
#[kani::unwind(7)]
fn u256_add_exact() {
    let p = modulus(kani::any());
    let (a, b) = (any_below(&p), any_below(&p));
    let mut x = U256::from(a);
    x.add(&U256::from(b), &U256::from(p));
    let want = wmod_once(&wadd(&w(&a), &w(&b)), &w(&p));
    assert!(eq5(&w(&limbs(&x)), &want));
    assert!(wlt4(&limbs(&x), &p));
}

#[kani::proof]
#[kani::unwind(7)]
fn u256_sub_exact() {
    let p = modulus(kani::any());
    let (a, b) = (any_below(&p), any_below(&p));
    let mut x = U256::from(a);
    x.sub(&U256::from(b), &U256::from(p));
    let want = if wge(&w(&a), &w(&b)) { wsub(&w(&a), &w(&b)) } else { wsub(&wadd(&w(&a), &w(&p)), &w(&b)) };
    assert!(eq5(&w(&limbs(&x)), &want));
    assert!(wlt4(&limbs(&x), &p));
}

#[kani::proof]
#[kani::unwind(7)]
fn u256_neg_exact() {
    let p = modulus(kani::any());
    let a = any_below(&p);
    let mut x = U256::from(a);
    x.neg(&U256::from(p));
    let want = if eq4(&a, &[0u64; 4]) { w(&a) } else { wsub(&w(&p), &w(&a)) };
    assert!(eq5(&w(&limbs(&x)), &want));
    assert!(wlt4(&limbs(&x), &p));
}

#[kani::proof]
#[kani::unwind(7)]
fn u256_mul2_exact() {
    let p = modulus(kani::any());
    let a = any_below(&p);
    let mut x = U256::from(a);
    x.mul2(&U256::from(p));
    let want = wmod_once(&wadd(&w(&a), &w(&a)), &w(&p));
    assert!(eq5(&w(&limbs(&x)), &want));
    assert!(wlt4(&limbs(&x), &p));
}

#[kani::proof]
#[kani::unwind(7)]
fn u256_div2_exact() {
    // 2 * div2(a) == a (mod p) and the result is canonical
    let p = modulus(kani::any());
    let a = any_below(&p);
    let mut x = U256::from(a);
    x.div2(&U256::from(p));
    let h = limbs(&x);
    assert!(wlt4(&h, &p));
    let twice = wmod_once(&wadd(&w(&h), &w(&h)), &w(&p));
    assert!(eq5(&twice, &w(&a)));
}

// the same at the level of the field methods (body-agnostic: also decides a rewritten body that no longer calls the U256 routine)
macro_rules! field_linear_exact {
    ($h_add:ident, $h_sub:ident, $h_neg:ident, $h_dbl:ident, $F:path, $P:expr) => {
        #[kani::proof]
        #[kani::unwind(7)]
        fn $h_add() {
            let p = $P;
            let (a, b) = (any_below(&p), any_below(&p));
            let x = $F(U256::from(a)).add_inplace(&$F(U256::from(b)));
            assert!(eq5(&w(&limbs(&x.0)), &wmod_once(&wadd(&w(&a), &w(&b)), &w(&p))));
            let y = $F(U256::from(a)) + $F(U256::from(b));
            assert!(eq4(&limbs(&y.0), &limbs(&x.0)));
        }
        #[kani::proof]
        #[kani::unwind(7)]
        fn $h_sub() {
            let p = $P;
            let (a, b) = (any_below(&p), any_below(&p));
            let x = $F(U256::from(a)).sub_inplace(&$F(U256::from(b)));
            let want = if wge(&w(&a), &w(&b)) { wsub(&w(&a), &w(&b)) } else { wsub(&wadd(&w(&a), &w(&p)), &w(&b)) };
            assert!(eq5(&w(&limbs(&x.0)), &want));
            let y = $F(U256::from(a)) - $F(U256::from(b));
            assert!(eq4(&limbs(&y.0), &limbs(&x.0)));
        }
        #[kani::proof]
        #[kani::unwind(7)]
        fn $h_neg() {
            let p = $P;
            let a = any_below(&p);
            let x = $F(U256::from(a)).neg_inplace();
            let want = if eq4(&a, &[0u64; 4]) { w(&a) } else { wsub(&w(&p), &w(&a)) };
            assert!(eq5(&w(&limbs(&x.0)), &want));
            let y = -$F(U256::from(a));
            assert!(eq4(&limbs(&y.0), &limbs(&x.0)));
        }
        #[kani::proof]
        #[kani::unwind(7)]
        fn $h_dbl() {
            let p = $P;
            let a = any_below(&p);
            let x = $F(U256::from(a)).double();
            assert!(eq5(&w(&limbs(&x.0)), &wmod_once(&wadd(&w(&a), &w(&a)), &w(&p))));
            assert!($F(U256::from(a)).is_zero() == eq4(&a, &[0u64; 4]));
        }
    };
}
field_linear_exact!(fq_add_exact, fq_sub_exact, fq_neg_exact, fq_double_exact, IFq, FQ);
field_linear_exact!(fr_add_exact, fr_sub_exact, fr_neg_exact, fr_double_exact, IFr, FR);

// Fp::new accepts exactly the integers below the modulus (the Montgomery conversion itself is the E1 obligation; stubbed here)
#[kani::proof]
#[kani::unwind(7)]
#[kani::stub(crate::u256::U256::mul, stub_u256_mul)]
fn fq_new_range() {
    let a: [u64; 4] = kani::any();
    assert!(IFq::new(U256::from(a)).is_some() == wlt4(&a, &FQ));
}
#[kani::proof]
#[kani::unwind(7)]
#[kani::stub(crate::u256::U256::mul, stub_u256_mul)]
fn fr_new_range() {
    let a: [u64; 4] = kani::any();
    assert!(IFr::new(U256::from(a)).is_some() == wlt4(&a, &FR));
}

#[kani::proof]
#[kani::unwind(7)]
fn fq_div2_exact() {
    // Fq::div2: 2 * div2(a) == a (mod q), canonical
    let a = any_below(&FQ);
    let h = limbs(&IFq(U256::from(a)).div2().0);
    assert!(wlt4(&h, &FQ));
    assert!(eq5(&wmod_once(&wadd(&w(&h), &w(&h)), &w(&FQ)), &w(&a)));
}

#[kani::proof]
#[kani::unwind(7)]
fn u256_subtract_modulus_exact() {
    // requires self + c*2^256 < 2p ; ensures self' = (self + c*2^256) mod p
    let p = modulus(kani::any());
    let a: [u64; 4] = kani::any();
    let c: bool = kani::any();
    let mut full = w(&a);
    full[4] = c as u64;
    let twop = wadd(&w(&p), &w(&p));
    kani::assume(!wge(&full, &twop));
    let mut x = U256::from(a);
    x.subtract_modulus_with_carry(&U256::from(p), c);
    let want = wmod_once(&full, &w(&p));
    assert!(eq5(&w(&limbs(&x)), &want));
    assert!(wlt4(&limbs(&x), &p));
}

#[kani::proof]
#[kani::unwind(7)]
fn u256_set_get_bit() {
    let a: [u64; 4] = kani::any();
    let n: usize = kani::any();
    let to: bool = kani::any();
    let mut x = U256::from(a);
    let ok = x.set_bit(n, to);
    assert!(ok == (n < 256));
    if n >= 256 {
        assert!(eq4(&limbs(&x), &a));
        assert!(x.get_bit(n).is_none());
    } else {
        assert!(x.get_bit(n) == Some(to));
        let m: usize = kani::any();
        kani::assume(m < 256 && m != n);
        assert!(x.get_bit(m) == U256::from(a).get_bit(m));
        assert!(U256::from(a).get_bit(m) == Some((a[m >> 6] >> (m & 63)) & 1 == 1));
    }
}

// ------------------------------------------------------------------------------------------------
// byte conversions of U256 / U512: Err iff wrong length, otherwise big-endian placement

#[kani::proof]
#[kani::unwind(70)]
fn u256_from_slice_total() {
    let buf: [u8; 40] = kani::any();
    let len: usize = kani::any();
    kani::assume(len <= 40);
    let r = U256::from_slice(&buf[..len]);
    assert!(r.is_ok() == (len == 32));
    if let Ok(x) = r {
        let i: usize = kani::any();
        kani::assume(i < 32);
        // byte i (big endian) is bits (31-i)*8.. of the integer
        let limb = x[(31 - i) / 8];
        assert!(((limb >> (((31 - i) % 8) * 8)) & 0xff) as u8 == buf[i]);
    }
}

#[kani::proof]
#[kani::unwind(70)]
fn u256_to_big_endian_total() {
    let a: [u64; 4] = kani::any();
    let mut buf: [u8; 40] = kani::any();
    let len: usize = kani::any();
    kani::assume(len <= 40);
    let r = U256::from(a).to_big_endian(&mut buf[..len]);
    assert!(r.is_ok() == (len == 32));
    if r.is_ok() {
        let i: usize = kani::any();
        kani::assume(i < 32);
        assert!(((a[(31 - i) / 8] >> (((31 - i) % 8) * 8)) & 0xff) as u8 == buf[i]);
    }
}

#[kani::proof]
#[kani::unwind(70)]
fn u512_from_slice_total() {
    let buf: [u8; 70] = kani::any();
    let len: usize = kani::any();
    kani::assume(len <= 70);
    let r = U512::from_slice(&buf[..len]);
    assert!(r.is_ok() == (len == 64));
    if let Ok(x) = r {
        let i: usize = kani::any();
        kani::assume(i < 64);
        let limb = x[(63 - i) / 8];
        assert!(((limb >> (((63 - i) % 8) * 8)) & 0xff) as u8 == buf[i]);
    }
}

// ------------------------------------------------------------------------------------------------
// contract stubs for the heavy arithmetic

/// U256::mul: value-transparent for the two conversion multipliers (R^2: into Montgomery form, 1: out of it),
/// any canonical value otherwise (the functional contract is discharged by the limb-level engine).
fn stub_u256_mul(this: &mut U256, other: &U256, modulo: &U256, _inv: u64) {
    let o = limbs(other);
    if eq4(&o, &FQ_R2) || eq4(&o, &FR_R2) || eq4(&o, &[1, 0, 0, 0]) {
        // transparent: the stored representation *is* the value in this abstraction
        return;
    }
    let r = any_below(&limbs(modulo));
    *this = U256::from(r);
}
fn stub_u256_square(this: &mut U256, modulo: &U256, _inv: u64) {
    let r = any_below(&limbs(modulo));
    *this = U256::from(r);
}
fn stub_u256_invert(this: &mut U256, modulo: &U256, _r2: &U256) {
    let r = any_below(&limbs(modulo));
    *this = U256::from(r);
}
fn any_fq() -> IFq {
    IFq(U256::from(any_below(&FQ)))
}
fn any_fq2() -> IFq2 {
    IFq2::new(any_fq(), any_fq())
}
/// Fq::sqrt: None or a non-zero canonical value (sqrt(0) = 0 is irrelevant for curve points: x^3 + b != 0, A4)
fn stub_fq_sqrt(_this: &IFq) -> Option<IFq> {
    if kani::any() {
        let s = any_fq();
        kani::assume(!eq4(&limbs(&s.0), &[0u64; 4]));
        Some(s)
    } else {
        None
    }
}
fn stub_fq2_sqrt(_this: &IFq2) -> Option<IFq2> {
    if kani::any() {
        let s = any_fq2();
        kani::assume(!eq4(&limbs(&s.c0.0), &[0u64; 4]));
        Some(s)
    } else {
        None
    }
}
fn stub_fq_sum_of_products<const T: usize>(_a: &[IFq; T], _b: &[IFq; T]) -> IFq {
    any_fq()
}
/// scalar multiplication used by the subgroup test: any valid-shaped group value
fn stub_g2_mul(_this: IG<G2Params>, _k: IFr) -> IG<G2Params> {
    IG::new(any_fq2(), any_fq2(), any_fq2())
}
fn stub_g2_add(_this: IG<G2Params>, _o: IG<G2Params>) -> IG<G2Params> {
    IG::new(any_fq2(), any_fq2(), any_fq2())
}
/// The subgroup test ([r-1]P + P == O) is a 256-round loop over contract-stubbed arithmetic; its totality and meaning are
/// obligations of the group layer (mirvc: groups::mul, groups::add, groups::eq, groups::affine_new_order1).  The decoder
/// harnesses switch it off and prove totality / strictness / round trip of everything else on the path.
fn stub_check_order_off() -> bool {
    false
}
fn stub_fq_from_str(_s: &str) -> Option<IFq> {
    Some(any_fq())
}

fn be32(b: &[u8]) -> [u64; 4] {
    let mut d = [0u64; 4];
    let mut i = 0;
    while i < 32 {
        d[(31 - i) / 8] |= (b[i] as u64) << (((31 - i) % 8) * 8);
        i += 1;
    }
    d
}

// ------------------------------------------------------------------------------------------------
// C08 / C18: the six point decoders.
//   *_wrong_length : every byte string of every length 0..=140 other than the format's length is rejected (no panic)
//   *_strict       : every byte string of exactly the format's length: no panic; Ok implies prefix valid, every
//                    coordinate below q, and re-encoding in the same format gives back the input

macro_rules! wrong_length_harness {
    ($name:ident, $call:expr, $len:expr) => {
        #[kani::proof]
        #[kani::unwind(4)]
        fn $name() {
            let buf: [u8; 140] = kani::any();
            let len: usize = kani::any();
            kani::assume(len <= 140 && len != $len);
            let r = ($call)(&buf[..len]);
            assert!(r.is_err());
        }
    };
}
wrong_length_harness!(g1_from_slice_wrong_length, |b: &[u8]| G1::from_slice(b), 64);
wrong_length_harness!(g1_from_uncompressed_wrong_length, |b: &[u8]| G1::from_uncompressed(b), 65);
wrong_length_harness!(g1_from_compressed_wrong_length, |b: &[u8]| G1::from_compressed(b), 33);
wrong_length_harness!(g2_from_slice_wrong_length, |b: &[u8]| G2::from_slice(b), 128);
wrong_length_harness!(g2_from_uncompressed_wrong_length, |b: &[u8]| G2::from_uncompressed(b), 129);
wrong_length_harness!(g2_from_compressed_wrong_length, |b: &[u8]| G2::from_compressed(b), 65);

/// reference implementations used as contract stubs of the two byte conversions (their own obligations:
/// u256_from_slice_total / u256_to_big_endian_total prove the real functions equal to these on every input)
fn stub_u256_from_slice(s: &[u8]) -> Result<U256, crate::u256::Error> {
    if s.len() != 32 {
        return Err(crate::u256::Error::InvalidLength { expected: 32, actual: s.len() });
    }
    Ok(U256::from(be32(s)))
}
fn stub_u256_to_big_endian(this: U256, s: &mut [u8]) -> Result<(), crate::u256::Error> {
    if s.len() != 32 {
        return Err(crate::u256::Error::InvalidLength { expected: 32, actual: s.len() });
    }
    let a = limbs(&this);
    let mut i = 0;
    while i < 32 {
        s[i] = ((a[(31 - i) / 8] >> (((31 - i) % 8) * 8)) & 0xff) as u8;
        i += 1;
    }
    Ok(())
}
fn byte_of(a: &[u64; 4], i: usize) -> u8 {
    ((a[(31 - i) / 8] >> (((31 - i) % 8) * 8)) & 0xff) as u8
}
const FQ_ONE: [u64; 4] = [0x1A9064D81CAEBA83, 0xDE0D6CB4E5851124, 0x29FC54B00A7138BA, 0x49BFFFFFFD5C590E];

/// decoder contract: no panic on any input of the exact length; Ok(p) implies valid prefix, every coordinate an integer
/// below q, the stored coordinates are exactly those integers (value-transparent conversion) and z = 1
macro_rules! decoder_harness {
    ($name:ident, $ty:ty, $call:expr, $len:expr, $prefix:expr, $g2:expr, $compressed:expr) => {
        #[kani::proof]
        #[kani::unwind(40)]
        #[kani::stub(crate::u256::U256::mul, stub_u256_mul)]
        #[kani::stub(crate::u256::U256::square, stub_u256_square)]
        #[kani::stub(crate::u256::U256::invert, stub_u256_invert)]
        #[kani::stub(crate::u256::U256::from_slice, stub_u256_from_slice)]
        #[kani::stub(crate::u256::U256::to_big_endian, stub_u256_to_big_endian)]
        #[kani::stub(crate::fields::Fq::sqrt, stub_fq_sqrt)]
        #[kani::stub(crate::fields::Fq2::sqrt, stub_fq2_sqrt)]
        #[kani::stub(crate::fields::Fq::from_str, stub_fq_from_str)]
        #[kani::stub(crate::fields::Fq::sum_of_products, stub_fq_sum_of_products)]
        #[kani::stub(<crate::groups::G2Params as crate::groups::GroupParams>::check_order, stub_check_order_off)]
        fn $name() {
            let b: [u8; $len] = kani::any();
            let r: Result<$ty, CurveError> = ($call)(&b[..]);
            if let Ok(p) = r {
                let pre: Option<(u8, u8)> = $prefix;
                let off = if let Some((lo, hi)) = pre {
                    assert!(b[0] >= lo && b[0] <= hi);
                    1
                } else {
                    0
                };
                let ncoord: usize = if $g2 { 2 } else { 1 } * if $compressed { 1 } else { 2 };
                let c: usize = kani::any();
                kani::assume(c < ncoord);
                let v = be32(&b[off + 32 * c..off + 32 * c + 32]);
                assert!(wlt4(&v, &FQ));
                // the decoded point carries exactly the parsed coordinates
                let stored = coord_of(&p, c);
                if !($compressed) || c < (if $g2 { 2 } else { 1 }) {
                    assert!(eq4(&stored, &v));
                }
                assert!(z_is_one(&p));
            }
        }
    };
}

trait Coords {
    fn coord(&self, c: usize) -> [u64; 4];
    fn z_one(&self) -> bool;
}
impl Coords for G1 {
    fn coord(&self, c: usize) -> [u64; 4] {
        if c == 0 { limbs(&self.0.x.0) } else { limbs(&self.0.y.0) }
    }
    fn z_one(&self) -> bool {
        eq4(&limbs(&self.0.z.0), &FQ_ONE)
    }
}
impl Coords for G2 {
    // byte order of the formats: imaginary part first
    fn coord(&self, c: usize) -> [u64; 4] {
        match c {
            0 => limbs(&self.0.x.c1.0),
            1 => limbs(&self.0.x.c0.0),
            2 => limbs(&self.0.y.c1.0),
            _ => limbs(&self.0.y.c0.0),
        }
    }
    fn z_one(&self) -> bool {
        eq4(&limbs(&self.0.z.c0.0), &FQ_ONE) && eq4(&limbs(&self.0.z.c1.0), &[0u64; 4])
    }
}
fn coord_of<T: Coords>(p: &T, c: usize) -> [u64; 4] {
    p.coord(c)
}
fn z_is_one<T: Coords>(p: &T) -> bool {
    p.z_one()
}

decoder_harness!(g1_from_slice_strict, G1, |b: &[u8]| G1::from_slice(b), 64, None, false, false);
decoder_harness!(g1_from_uncompressed_strict, G1, |b: &[u8]| G1::from_uncompressed(b), 65, Some((4, 4)), false, false);
decoder_harness!(g1_from_compressed_strict, G1, |b: &[u8]| G1::from_compressed(b), 33, Some((2, 3)), false, true);
decoder_harness!(g2_from_slice_strict, G2, |b: &[u8]| G2::from_slice(b), 128, None, true, false);
decoder_harness!(g2_from_uncompressed_strict, G2, |b: &[u8]| G2::from_uncompressed(b), 129, Some((4, 4)), true, false);
decoder_harness!(g2_from_compressed_strict, G2, |b: &[u8]| G2::from_compressed(b), 65, Some((2, 3)), true, true);

/// contract stubs of the validated constructors (their contracts are the obligations groups::affine_new_order0/1 and
/// lib::LAffineG1::new / lib::LAffineG2::new of the MIR engine): Ok carries exactly the given pair, or Err
fn stub_affine_g1_new(x: Fq, y: Fq) -> Result<AffineG1, GroupError> {
    if kani::any() {
        match crate::groups::G1::new(x.0, y.0, IFq(U256::from(FQ_ONE))).to_affine() {
            Some(a) => Ok(AffineG1(a)),
            None => Err(GroupError::NotOnCurve),
        }
    } else if kani::any() {
        Err(GroupError::NotOnCurve)
    } else {
        Err(GroupError::NotInSubgroup)
    }
}
fn stub_affine_g2_new(x: Fq2, y: Fq2) -> Result<AffineG2, GroupError> {
    if kani::any() {
        match crate::groups::G2::new(x.0, y.0, IFq2::new(IFq(U256::from(FQ_ONE)), IFq(U256::from([0u64; 4])))).to_affine() {
            Some(a) => Ok(AffineG2(a)),
            None => Err(GroupError::NotOnCurve),
        }
    } else if kani::any() {
        Err(GroupError::NotOnCurve)
    } else {
        Err(GroupError::NotInSubgroup)
    }
}

/// modular decoder contract (quick tier): as `decoder_harness`, with the validated constructor replaced by its contract
macro_rules! decoder_modular {
    ($name:ident, $ty:ty, $call:expr, $len:expr, $prefix:expr, $g2:expr, $compressed:expr) => {
        #[kani::proof]
        #[kani::unwind(40)]
        #[kani::stub(crate::u256::U256::mul, stub_u256_mul)]
        #[kani::stub(crate::u256::U256::square, stub_u256_square)]
        #[kani::stub(crate::u256::U256::invert, stub_u256_invert)]
        #[kani::stub(crate::u256::U256::from_slice, stub_u256_from_slice)]
        #[kani::stub(crate::fields::Fq::sqrt, stub_fq_sqrt)]
        #[kani::stub(crate::fields::Fq2::sqrt, stub_fq2_sqrt)]
        #[kani::stub(crate::fields::Fq::from_str, stub_fq_from_str)]
        #[kani::stub(crate::fields::Fq::sum_of_products, stub_fq_sum_of_products)]
        #[kani::stub(crate::AffineG1::new, stub_affine_g1_new)]
        #[kani::stub(crate::AffineG2::new, stub_affine_g2_new)]
        fn $name() {
            let b: [u8; $len] = kani::any();
            let r: Result<$ty, CurveError> = ($call)(&b[..]);
            if let Ok(p) = r {
                let pre: Option<(u8, u8)> = $prefix;
                let off = if let Some((lo, hi)) = pre {
                    assert!(b[0] >= lo && b[0] <= hi);
                    1
                } else {
                    0
                };
                let ncoord: usize = if $g2 { 2 } else { 1 } * if $compressed { 1 } else { 2 };
                let c: usize = kani::any();
                kani::assume(c < ncoord);
                let v = be32(&b[off + 32 * c..off + 32 * c + 32]);
                assert!(wlt4(&v, &FQ));
                assert!(eq4(&coord_of(&p, c), &v));
                assert!(z_is_one(&p));
                if $compressed {
                    // the chosen root has the parity announced by the prefix (real part for G2)
                    let ylow = coord_of(&p, if $g2 { 3 } else { 1 });
                    assert!((ylow[0] & 1) as u8 == (b[0] & 1));
                }
            }
        }
    };
}
decoder_modular!(g1_from_slice_modular, G1, |b: &[u8]| G1::from_slice(b), 64, None, false, false);
decoder_modular!(g1_from_uncompressed_modular, G1, |b: &[u8]| G1::from_uncompressed(b), 65, Some((4, 4)), false, false);
decoder_modular!(g1_from_compressed_modular, G1, |b: &[u8]| G1::from_compressed(b), 33, Some((2, 3)), false, true);
decoder_modular!(g2_from_slice_modular, G2, |b: &[u8]| G2::from_slice(b), 128, None, true, false);
decoder_modular!(g2_from_uncompressed_modular, G2, |b: &[u8]| G2::from_uncompressed(b), 129, Some((4, 4)), true, false);
decoder_modular!(g2_from_compressed_modular, G2, |b: &[u8]| G2::from_compressed(b), 65, Some((2, 3)), true, true);

/// compressed decoders additionally: the stored y has the parity announced by the prefix (real part for G2)
#[kani::proof]
#[kani::unwind(40)]
#[kani::stub(crate::u256::U256::mul, stub_u256_mul)]
#[kani::stub(crate::u256::U256::square, stub_u256_square)]
#[kani::stub(crate::u256::U256::invert, stub_u256_invert)]
#[kani::stub(crate::u256::U256::from_slice, stub_u256_from_slice)]
#[kani::stub(crate::fields::Fq::sqrt, stub_fq_sqrt)]
#[kani::stub(crate::fields::Fq::from_str, stub_fq_from_str)]
fn g1_from_compressed_parity() {
    let b: [u8; 33] = kani::any();
    if let Ok(p) = G1::from_compressed(&b[..]) {
        assert!((limbs(&p.0.y.0)[0] & 1) as u8 == (b[0] & 1));
    }
}
#[kani::proof]
#[kani::unwind(40)]
#[kani::stub(crate::u256::U256::mul, stub_u256_mul)]
#[kani::stub(crate::u256::U256::square, stub_u256_square)]
#[kani::stub(crate::u256::U256::invert, stub_u256_invert)]
#[kani::stub(crate::u256::U256::from_slice, stub_u256_from_slice)]
#[kani::stub(crate::fields::Fq2::sqrt, stub_fq2_sqrt)]
#[kani::stub(crate::fields::Fq::from_str, stub_fq_from_str)]
#[kani::stub(crate::fields::Fq::sum_of_products, stub_fq_sum_of_products)]
#[kani::stub(<crate::groups::G2Params as crate::groups::GroupParams>::check_order, stub_check_order_off)]
fn g2_from_compressed_parity() {
    let b: [u8; 65] = kani::any();
    if let Ok(p) = G2::from_compressed(&b[..]) {
        assert!((limbs(&p.0.y.c0.0)[0] & 1) as u8 == (b[0] & 1));
    }
}

// ------------------------------------------------------------------------------------------------
// C10: the six encoders on a normalised point (z = 1): exact byte placement; on any non-identity point: no panic

fn g1_norm() -> G1 {
    G1(crate::groups::G1::new(any_fq(), any_fq(), IFq(U256::from(FQ_ONE))))
}
fn g2_norm() -> G2 {
    G2(crate::groups::G2::new(any_fq2(), any_fq2(), IFq2::new(IFq(U256::from(FQ_ONE)), IFq(U256::from([0u64; 4])))))
}

macro_rules! encoder_harness {
    ($name:ident, $mk:expr, $enc:expr, $len:expr, $fmt:expr) => {
        #[kani::proof]
        #[kani::unwind(40)]
        #[kani::stub(crate::u256::U256::mul, stub_u256_mul)]
        #[kani::stub(crate::u256::U256::square, stub_u256_square)]
        #[kani::stub(crate::u256::U256::invert, stub_u256_invert)]
        #[kani::stub(crate::u256::U256::to_big_endian, stub_u256_to_big_endian)]
        fn $name() {
            let p = $mk;
            let e: [u8; $len] = ($enc)(p);
            let i: usize = kani::any();
            kani::assume(i < $len);
            // fmt: 0 raw, 1 uncompressed, 2 compressed
            let ncoord_pt = p.ncoord();
            if $fmt == 2 {
                if i == 0 {
                    assert!(e[0] == 2 | (p.coord(ncoord_pt + ncoord_pt - 1)[0] & 1) as u8);
                } else {
                    assert!(e[i] == byte_of(&p.coord((i - 1) / 32), (i - 1) % 32));
                }
            } else {
                let off = if $fmt == 1 { 1 } else { 0 };
                if i < off {
                    assert!(e[0] == 4);
                } else {
                    assert!(e[i] == byte_of(&p.coord((i - off) / 32), (i - off) % 32));
                }
            }
        }
    };
}
trait NCoord {
    fn ncoord(&self) -> usize;
}
impl NCoord for G1 {
    fn ncoord(&self) -> usize { 1 }
}
impl NCoord for G2 {
    fn ncoord(&self) -> usize { 2 }
}
encoder_harness!(g1_to_slice_layout, g1_norm(), |p: G1| p.to_slice(), 64, 0);
encoder_harness!(g1_to_uncompressed_layout, g1_norm(), |p: G1| p.to_uncompressed(), 65, 1);
encoder_harness!(g1_to_compressed_layout, g1_norm(), |p: G1| p.to_compressed(), 33, 2);
encoder_harness!(g2_to_slice_layout, g2_norm(), |p: G2| p.to_slice(), 128, 0);
encoder_harness!(g2_to_uncompressed_layout, g2_norm(), |p: G2| p.to_uncompressed(), 129, 1);
encoder_harness!(g2_to_compressed_layout, g2_norm(), |p: G2| p.to_compressed(), 65, 2);

// ------------------------------------------------------------------------------------------------
// C13: length dispatch and byte placement of the slice / hash conversions, every length 0..=70.
// U512::divrem is replaced by a contract stub that exposes one half of its dividend (when that half is a legal
// remainder), so the harness can see which 512-bit integer the real code built from the bytes.

fn u512_half(x: &U512, hi: bool) -> [u64; 4] {
    if hi {
        [x[4], x[5], x[6], x[7]]
    } else {
        [x[0], x[1], x[2], x[3]]
    }
}
fn stub_divrem_lo(this: &U512, modulo: &U256) -> (Option<U256>, U256) {
    let h = u512_half(this, false);
    let m = limbs(modulo);
    let r = if wlt4(&h, &m) { h } else { any_below(&m) };
    (None, U256::from(r))
}
fn stub_divrem_hi(this: &U512, modulo: &U256) -> (Option<U256>, U256) {
    let h = u512_half(this, true);
    let m = limbs(modulo);
    let r = if wlt4(&h, &m) { h } else { any_below(&m) };
    (None, U256::from(r))
}
/// expected 512-bit integer: the slice right-aligned in 64 bytes
fn padded_half(buf: &[u8], len: usize, hi: bool) -> [u64; 4] {
    let mut t = [0u8; 64];
    let mut i = 0;
    while i < len {
        t[64 - len + i] = buf[i];
        i += 1;
    }
    if hi {
        be32(&t[0..32])
    } else {
        be32(&t[32..64])
    }
}

macro_rules! from_slice_dispatch {
    ($name:ident, $ty:ident, $modulus:expr, $stub:ident, $hi:expr) => {
        #[kani::proof]
        #[kani::unwind(72)]
        #[kani::stub(crate::u256::U256::mul, stub_u256_mul)]
        #[kani::stub(crate::u256::U256::from_slice, stub_u256_from_slice)]
        #[kani::stub(crate::u512::U512::divrem, $stub)]
        fn $name() {
            let buf: [u8; 70] = kani::any();
            let len: usize = kani::any();
            kani::assume(len <= 70);
            let r = $ty::from_slice(&buf[..len]);
            assert!(r.is_some() == (len >= 1 && len <= 64));
            if let Some(x) = r {
                let stored = limbs(&x.0 .0);
                let want = padded_half(&buf, len, $hi);
                if len <= 32 {
                    if !$hi {
                        assert!(eq4(&stored, &want));
                    }
                } else if wlt4(&want, &$modulus) {
                    assert!(eq4(&stored, &want));
                }
                assert!(len == 32 || wlt4(&stored, &$modulus));
            }
        }
    };
}
from_slice_dispatch!(fr_from_slice_dispatch_lo, Fr, FR, stub_divrem_lo, false);
from_slice_dispatch!(fr_from_slice_dispatch_hi, Fr, FR, stub_divrem_hi, true);
from_slice_dispatch!(fq_from_slice_dispatch_lo, Fq, FQ, stub_divrem_lo, false);
from_slice_dispatch!(fq_from_slice_dispatch_hi, Fq, FQ, stub_divrem_hi, true);

#[kani::proof]
#[kani::unwind(72)]
#[kani::stub(crate::u256::U256::mul, stub_u256_mul)]
#[kani::stub(crate::u512::U512::divrem, stub_divrem_lo)]
fn fr_from_hash_total() {
    let buf: [u8; 70] = kani::any();
    let len: usize = kani::any();
    kani::assume(len <= 70);
    let r = Fr::from_hash(&buf[..len]);
    assert!(r.is_some() == (len <= 64));
}

#[kani::proof]
#[kani::unwind(72)]
#[kani::stub(crate::u256::U256::mul, stub_u256_mul)]
#[kani::stub(crate::u256::U256::to_big_endian, stub_u256_to_big_endian)]
fn fq_to_big_endian_total() {
    let x = Fq(any_fq());
    let mut buf: [u8; 70] = kani::any();
    let len: usize = kani::any();
    kani::assume(len <= 70);
    let r = x.to_big_endian(&mut buf[..len]);
    assert!(r.is_ok() == (len == 32));
}

// ------------------------------------------------------------------------------------------------
// Canonicity of the Montgomery multiplier, squarer and interleaved sum of products on the real code.
// NOT part of any check: each of these exceeded 3000 s of CBMC time here; canonicity (res < m) for all inputs is a
// postcondition of the Verus obligations mul / square / sum_of_products instead.  Kept for reference only.

#[kani::proof]
#[kani::unwind(7)]
fn u256_mul_canonical() {
    let which: bool = kani::any();
    let p = modulus(which);
    let inv: u64 = if which { 0x892BC42C2F2EE42B } else { 0x1D02662351974B53 };
    let (a, b) = (any_below(&p), any_below(&p));
    let mut x = U256::from(a);
    x.mul(&U256::from(b), &U256::from(p), inv);
    assert!(wlt4(&limbs(&x), &p));
}
#[kani::proof]
#[kani::unwind(9)]
fn u256_square_canonical() {
    let which: bool = kani::any();
    let p = modulus(which);
    let inv: u64 = if which { 0x892BC42C2F2EE42B } else { 0x1D02662351974B53 };
    let a = any_below(&p);
    let mut x = U256::from(a);
    x.square(&U256::from(p), inv);
    assert!(wlt4(&limbs(&x), &p));
}
#[kani::proof]
#[kani::unwind(7)]
fn sum_of_products_2_canonical() {
    let a = [any_fq(), any_fq()];
    let b = [any_fq(), any_fq()];
    let r = IFq::sum_of_products(&a, &b);
    assert!(wlt4(&limbs(&r.0), &FQ));
}

// ------------------------------------------------------------------------------------------------
// C11 / C12 / C02(v): serialisation order of the tower (highest coefficient first at every level)

#[kani::proof]
#[kani::unwind(40)]
#[kani::stub(crate::u256::U256::mul, stub_u256_mul)]
#[kani::stub(crate::u256::U256::to_big_endian, stub_u256_to_big_endian)]
fn fq12_to_slice_layout() {
    let c: [[u64; 4]; 12] = [any_below(&FQ), any_below(&FQ), any_below(&FQ), any_below(&FQ), any_below(&FQ), any_below(&FQ),
                             any_below(&FQ), any_below(&FQ), any_below(&FQ), any_below(&FQ), any_below(&FQ), any_below(&FQ)];
    let f = |k: usize| IFq(U256::from(c[k]));
    // c[k] is the coefficient with index k in the order c0.c0.c0, c0.c0.c1, c0.c1.c0, c0.c1.c1, c1.c0.c0, ...
    let f4 = |b: usize| crate::fields::Fq4::new(IFq2::new(f(b), f(b + 1)), IFq2::new(f(b + 2), f(b + 3)));
    let x = crate::fields::Fq12::new(f4(0), f4(4), f4(8));
    let e = x.to_slice();
    let i: usize = kani::any();
    kani::assume(i < 384);
    // byte block j (32 bytes) holds coefficient 11 - j
    let j = i / 32;
    assert!(e[i] == byte_of(&c[11 - j], i % 32));
}

#[kani::proof]
#[kani::unwind(40)]
#[kani::stub(crate::u256::U256::mul, stub_u256_mul)]
#[kani::stub(crate::u256::U256::to_big_endian, stub_u256_to_big_endian)]
fn fq2_to_slice_layout() {
    let (a, b) = (any_below(&FQ), any_below(&FQ));
    let x = IFq2::new(IFq(U256::from(a)), IFq(U256::from(b)));
    let e = x.to_slice();
    let i: usize = kani::any();
    kani::assume(i < 64);
    assert!(e[i] == if i < 32 { byte_of(&b, i) } else { byte_of(&a, i - 32) });
}

// ------------------------------------------------------------------------------------------------
// A6: the contracts that the Verus files assume for ark_ff::BigInt<4> (external_body in verus/annot/prelude.rs),
// proved here for ark-ff's portable implementation

#[kani::proof]
#[kani::unwind(7)]
fn ark_add_with_carry_contract() {
    use ark_ff::BigInteger;
    let (a, b): ([u64; 4], [u64; 4]) = (kani::any(), kani::any());
    let mut x = ark_ff::BigInt::<4>::new(a);
    let c = x.add_with_carry(&ark_ff::BigInt::<4>::new(b));
    let mut want = wadd(&w(&a), &w(&b));
    assert!(c == (want[4] != 0));
    want[4] = 0;
    assert!(eq5(&w(&x.0), &want));
}
#[kani::proof]
#[kani::unwind(7)]
fn ark_sub_with_borrow_contract() {
    use ark_ff::BigInteger;
    let (a, b): ([u64; 4], [u64; 4]) = (kani::any(), kani::any());
    let mut x = ark_ff::BigInt::<4>::new(a);
    let br = x.sub_with_borrow(&ark_ff::BigInt::<4>::new(b));
    assert!(br == wlt4(&a, &b));
    // x == a - b + (borrow ? 2^256 : 0)
    let mut lhs = w(&x.0);
    let back = wadd(&lhs, &w(&b));
    let mut expect = w(&a);
    expect[4] = br as u64;
    assert!(eq5(&back, &expect));
    lhs[4] = 0;
}
#[kani::proof]
#[kani::unwind(7)]
fn ark_ord_contract() {
    let (a, b): ([u64; 4], [u64; 4]) = (kani::any(), kani::any());
    let (x, y) = (ark_ff::BigInt::<4>::new(a), ark_ff::BigInt::<4>::new(b));
    assert!((x >= y) == wge(&w(&a), &w(&b)));
    assert!((x < y) == wlt4(&a, &b));
}
#[kani::proof]
#[kani::unwind(7)]
fn ark_misc_contract() {
    // contracts assumed by the Verus unit `inv`: is_even, one(), ==, zero(), get_bit
    use ark_ff::BigInteger;
    let (a, b): ([u64; 4], [u64; 4]) = (kani::any(), kani::any());
    let (x, y) = (ark_ff::BigInt::<4>::new(a), ark_ff::BigInt::<4>::new(b));
    assert!(x.is_even() == (a[0] & 1 == 0));
    let one = ark_ff::BigInt::<4>::one();
    assert!(one.0[0] == 1 && one.0[1] == 0 && one.0[2] == 0 && one.0[3] == 0);
    let zero = ark_ff::BigInt::<4>::zero();
    assert!(zero.0[0] == 0 && zero.0[1] == 0 && zero.0[2] == 0 && zero.0[3] == 0);
    let n: usize = kani::any();
    kani::assume(n < 256);
    assert!(x.get_bit(n) == ((a[n >> 6] >> (n & 63)) & 1 == 1));
}
#[kani::proof]
#[kani::unwind(34)]
fn ark_eq_contract() {
    // derived PartialEq of BigInt<4> (a 32-byte memcmp) is limb-wise equality
    let (a, b): ([u64; 4], [u64; 4]) = (kani::any(), kani::any());
    let (x, y) = (ark_ff::BigInt::<4>::new(a), ark_ff::BigInt::<4>::new(b));
    assert!((x == y) == (a[0] == b[0] && a[1] == b[1] && a[2] == b[2] && a[3] == b[3]));
}
#[kani::proof]
#[kani::unwind(10)]
fn ark_b512_contract() {
    // limb-level contracts of BigInt<8>::get_bit / num_bits assumed by the Verus unit `divrem`
    use ark_ff::BigInteger;
    let a: [u64; 8] = kani::any();
    let x = ark_ff::BigInt::<8>::new(a);
    let n: usize = kani::any();
    kani::assume(n < 512);
    assert!(x.get_bit(n) == ((a[n / 64] >> (n % 64)) & 1 == 1));
    let r = x.num_bits();
    assert!(r <= 512);
    if r == 0 {
        let mut t = 0;
        while t < 8 { assert!(a[t] == 0); t += 1; }
    } else {
        let k = ((r - 1) / 64) as usize;
        let j = (r - 1) % 64;
        let mut t = k + 1;
        while t < 8 { assert!(a[t] == 0); t += 1; }
        assert!((a[k] >> j) <= 1);
    }
}
#[kani::proof]
#[kani::unwind(7)]
fn ark_mul2_div2_contract() {
    use ark_ff::BigInteger;
    let a: [u64; 4] = kani::any();
    let mut x = ark_ff::BigInt::<4>::new(a);
    let c = x.mul2();
    let mut want = wadd(&w(&a), &w(&a));
    assert!(c == (want[4] != 0));
    want[4] = 0;
    assert!(eq5(&w(&x.0), &want));
    let mut y = ark_ff::BigInt::<4>::new(a);
    y.div2();
    // 2 * (a / 2) + (a & 1) == a
    let twice = wadd(&w(&y.0), &w(&y.0));
    let mut lsb = [0u64; 5];
    lsb[0] = a[0] & 1;
    assert!(eq5(&wadd(&twice, &lsb), &w(&a)));
    assert!(ark_ff::BigInt::<4>::new(a).is_odd() == (a[0] & 1 == 1));
    assert!(ark_ff::BigInt::<4>::new(a).is_zero() == (a[0] == 0 && a[1] == 0 && a[2] == 0 && a[3] == 0));
}
