#!/usr/bin/env python3
"""X-exp extractor: takes functions of the compiler-expanded crate text (rustc -Zunpretty=expanded) and applies the
rewrite rules R1..R10 of DESIGN §4.1 mechanically (regular expressions, logged per application).  The output is the
executable text that Verus sees; annotations are added as whole lines by the annotation patch (annot/*.rs) and removed
again by `erase` to show that what Verus accepted is the current code."""
import re, sys

def find_fn(text, header_re):
    """return the source text of the first fn whose header matches header_re (brace matching)"""
    base = 0
    if isinstance(header_re, tuple):
        # (scope anchor, header): the first match of header after the first match of the anchor
        ms = re.search(header_re[0], text)
        if not ms:
            return None
        base = ms.end()
        header_re = header_re[1]
    m = re.compile(header_re).search(text, base)
    if not m:
        return None
    i = m.start()
    j = text.index('{', i)
    depth = 0
    k = j
    while k < len(text):
        c = text[k]
        if c == '{':
            depth += 1
        elif c == '}':
            depth -= 1
            if depth == 0:
                return text[i:k + 1]
        k += 1
    return None

RULES = [
    # R1: iterator adaptors over a 4-limb slice -> index loops
    ('R1', r'for \((\w+), (\w+)\) in (\w+)\.iter\(\)\.enumerate\(\)\.take\(4\)\.skip\(1\) \{', r'for \1 in 1..4usize\n{\nlet \2 = &\3[\1];'),
    ('R1', r'for \((\w+), (\w+)\) in (\w+)\.iter\(\)\.enumerate\(\)\.take\(4\) \{', r'for \1 in 0..4usize\n{\nlet \2 = &\3[\1];'),
    ('R1', r'for (\w+) in (\d+)\.\.(\d+) \{', r'for \1 in \2..\3usize\n{'),
    # R3: limb views
    ('R3', r'let (\w+) = (\w+)\.as_ref\(\);', r'let \1 = &\2.0.0;'),
    ('R3', r'let (\w+) = self\.as_mut\(\);', r'let \1 = &mut self.0.0;'),
    # R4: MulBuffer indexing (Index / IndexMut sugar -> the bodies of get / get_mut)
    ('R4w', r'\br\[([^\]]+)\] =\s*\n?\s*\{', r'let t_\n=\n{'),   # placeholder, completed by fix_mulbuffer_writes
    # R10: truncating casts
    ('R10', r'= \((\w+) >> 64\) as u64;', r'= #[verifier::truncate] ((\1 >> 64) as u64);'),
    ('R10', r'^(\s*)(\w+) as u64$', r'\1#[verifier::truncate] (\2 as u64)'),
]

def rewrite_mul(src, log):
    s = src
    # normalise whitespace of the pretty printer: one statement per line already
    # R4 writes:  r[k] = { ... tmp as u64 };   ->   let t_k = { ... }; r.set(k, t_k);
    def repl_write(m):
        idx = m.group(1)
        body = m.group(2)
        log.append(('R4-write', idx))
        return 'let w_ =\n{%s};\nr.set(%s, w_);' % (body, idx)
    s = re.sub(r'\br\[([^\]=]+)\] =\s*\{((?:[^{}]|\{[^{}]*\})*)\};', repl_write, s)
    def repl_write_b1(m):
        log.append(('R4-write-b1', m.group(1)))
        return 'let w_ =\n{%s};\nr.b1[%s] = w_;' % (m.group(2), m.group(1))
    s = re.sub(r'\br\.b1\[([^\]=]+)\] =\s*\{((?:[^{}]|\{[^{}]*\})*)\};', repl_write_b1, s)
    # R4 reads
    def repl_read(m):
        log.append(('R4-read', m.group(1)))
        return '(*r.get(%s))' % m.group(1)
    s = re.sub(r'\br\[([^\]]+)\]', repl_read, s)
    # R11: `mut self` by value + final `self.as_mut().copy_from_slice(&X); (E, self)`  ->  `self` by value, `(E, U256(B256(X)))`
    #      (applicable only when self is not written anywhere else in the body)
    m = re.search(r'self\.as_mut\(\)\.copy_from_slice\(&([\w.]+)\);\s*\(([^;]*), self\)\s*\}\s*$', s)
    if m and s.count('self.as_mut()') == 1 and re.search(r'\(mut self,', s) and not re.search(r'\bself\s*=[^=]|\bself\.0\s*=[^=]', s):
        s = s[:m.start()] + '(%s, U256(B256(%s)))\n}' % (m.group(2), m.group(1))
        s = s.replace('(mut self,', '(self,', 1)
        log.append(('R11', 1))
    # function body brace on its own line (room for requires / ensures)
    s = re.sub(r'^(fn [^{]*?)\s*\{', r'\1\n{', s, count=1, flags=re.S)
    for name, pat, rep in RULES:
        if name == 'R4w':
            continue
        s2, n = re.subn(pat, rep, s, flags=re.M)
        if n:
            log.append((name, n))
        s = s2
    return s

def rewrite_square(src, log):
    """U256::square: the rules of rewrite_mul plus
    R12 compound shift assignment `X <<= n;` -> `X = X << n;`
    R13 limb-view alias: `let a = self.as_mut();` where `a` is only read (`a[i]`, `a.iter()`) and finally overwritten by
        `a.copy_from_slice(&X);` (X a [u64; 4])  ->  reads of `self.0.0`, final `self.0.0 = X;`
        (U256::as_mut is `&mut self.0.0`; copy_from_slice on equal static lengths is assignment)
    R4 plain writes `r[k] = EXPR;` -> `let w_ = EXPR'; r.set(k, w_);`"""
    s = src
    m = re.search(r'let (\w+) = self\.as_mut\(\);\s*', s)
    if m:
        a = m.group(1)
        rest = s[:m.start()] + s[m.end():]
        uses = re.findall(r'\b%s\b(.{0,20})' % a, rest)
        ok = all(u.startswith('[') or u.startswith('.iter()') or u.startswith('.copy_from_slice(&') for u in uses)
        ncopy = len(re.findall(r'\b%s\.copy_from_slice\(&' % a, rest))
        if not ok or ncopy != 1:
            raise ValueError('R13 not applicable')
        rest = re.sub(r'\b%s\.copy_from_slice\(&([\w.]+)\);' % a, r'self.0.0 = \1;', rest)
        rest = re.sub(r'\b%s\[' % a, 'self.0.0[', rest)
        rest = re.sub(r'\b%s\.iter\(\)' % a, 'self.0.0.iter()', rest)
        s = rest
        log.append(('R13', 1))
    s, n = re.subn(r'^(\s*)([\w.\[\]]+) <<= (\d+);', r'\1\2 = \2 << \3;', s, flags=re.M)
    if n:
        log.append(('R12', n))
    s, n = re.subn(r'for \((\w+), (\w+)\) in self\.0\.0\.iter\(\)\.enumerate\(\)\.take\(4\) \{', r'for \1 in 0..4usize\n{\nlet \2 = &self.0.0[\1];', s)
    if n:
        log.append(('R1', n))
    s, n = re.subn(r'for (\w+) in \((\w+) \+ 1\)\.\.(\d+) \{', r'for \1 in (\2 + 1)..\3usize\n{', s)
    if n:
        log.append(('R1', n))
    def repl_plain(m):
        log.append(('R4-write-plain', m.group(1)))
        return 'let w_ = %s;\nr.set(%s, w_);' % (m.group(2), m.group(1))
    s = re.sub(r'\br\[([^\]=]+)\] =\s*([^{};][^;{}]*);', repl_plain, s)
    s = re.sub(r'^\s*pub fn', 'pub fn', s, count=1)
    s = rewrite_mul(s, log)
    s = re.sub(r'^(pub fn [^{]*?)\s*\{', r'\1\n{', s, count=1, flags=re.S)
    return s

def rewrite_small(src, log):
    """functions without iterator adaptors / MulBuffer: only R9 (comparison operators on BigInt -> named comparison) and brace placement"""
    s = src
    s = re.sub(r'^\s*pub(\(crate\))? fn', 'pub fn', s, count=1)
    s2, n = re.subn(r'\b([\w.]+\.0) >= ([\w.]+\.0)\b', r'\1.ge_(&\2)', s)
    if n:
        log.append(('R9', n))
    s = s2
    s = re.sub(r'^(pub fn [^{]*?)\s*\{', r'\1\n{', s, count=1, flags=re.S)
    return s

def _match(s, i, open_c, close_c):
    depth = 0
    k = i
    while k < len(s):
        if s[k] == open_c:
            depth += 1
        elif s[k] == close_c:
            depth -= 1
            if depth == 0:
                return k
        k += 1
    raise ValueError('unbalanced')

def unfold_folds(s, log, counter=None):
    counter = counter if counter is not None else [0]
    """R2:  let PAT = (LO..HI).fold(INIT, |PAT2, VAR| BLOCK);   ->   accumulator loop (innermost first)"""
    while True:
        ms = list(re.finditer(r'let (\([^=]*?\)) =\s*\((\w+)\.\.(\w+)\)\.fold\(', s))
        if not ms:
            return s
        m = ms[-1]                      # innermost / last one first
        init_start = m.end()
        # INIT is a parenthesised tuple
        j = s.index('(', init_start - 0)
        init_end = _match(s, j, '(', ')')
        init = s[j:init_end + 1]
        mc = re.match(r'\s*,\s*\|(\([^|]*\)),\s*(\w+)\|\s*', s[init_end + 1:])
        if not mc:
            raise ValueError('fold closure shape')
        body_start = init_end + 1 + mc.end()
        if s[body_start] != '{':
            raise ValueError('fold closure body is not a block')
        body_end = _match(s, body_start, '{', '}')
        close = re.match(r'\s*\)\s*;', s[body_end + 1:])
        if not close:
            raise ValueError('fold call not a let statement')
        counter[0] += 1
        acc = 'acc%d_' % counter[0]
        body = s[body_start:body_end + 1]
        new = ('let mut %s = %s;\nfor %s in %s..%s\n{\nlet %s = %s;\n%s =\n%s;\n}\nlet %s = %s;' %
               (acc, init, mc.group(2), m.group(2), m.group(3), mc.group(1), acc, acc, body, m.group(1), acc))
        s = s[:m.start()] + new + s[body_end + 1 + close.end():]
        log.append(('R2', m.group(2) + '..' + m.group(3)))

def rewrite_sop(src, log, consts=None):
    s = src
    s = re.sub(r'^\s*pub\(crate\) fn', 'pub fn', s, count=1)
    s = unfold_folds(s, log)
    rules = [
        ('R3', r'let (\w+) = (\w+)\[(\w+)\]\.0\[(\w+)\];', r'let \1 = \2[\3].0.0.0[\4];'),
        ('R3', r'let (\w+) = (\w+)\[(\w+)\]\.0\.as_ref\(\);', r'let \1 = &\2[\3].0.0.0;'),
        ('R5', r'\*FQ_INV\b', 'FQ_INV_C'),
        ('R5', r'\bFQ\.as_ref\(\)', '&FQ_C'),
        ('R5', r'&FQ\b(?!_)', '&U256(B256(FQ_C))'),
        ('R3', r'U256::from\(\[(\w+), (\w+), (\w+), (\w+)\]\)', r'U256(B256([\1, \2, \3, \4]))'),
        ('R1', r'for _ in 0\.\.(\w+) \{', r'for _i in 0..\1\n{'),
        ('R1', r'for (\w+) in (\w+)\.\.(\w+)\n\{', r'for \1 in \2..\3\n{'),
    ]
    for name, pat, rep in rules:
        s2, n = re.subn(pat, rep, s)
        if n:
            log.append((name, n))
        s = s2
    s = index_u256(s, log)
    s = re.sub(r'^(pub fn [^{]*?)\s*\{', r'\1\n{', s, count=1, flags=re.S)
    return s

def rewrite_fp(src, log):
    """small functions of u256.rs / the field_impl! expansion: R9 comparisons, R5 constants, `mut` parameters, brace placement"""
    s = src
    s = re.sub(r'^\s*#\[inline\]\s*', '', s)
    s = re.sub(r'^\s*pub(\(crate\))? fn', 'pub fn', s, count=1)
    s = re.sub(r'^\s*fn ', 'pub fn ', s, count=1)
    # `mut` by-value parameter -> immutable parameter + shadowing `let mut`
    m = re.match(r'pub fn (\w+)\(mut (\w+): ([^,)]+)', s)
    if m:
        s = s.replace('(mut %s: %s' % (m.group(2), m.group(3)), '(%s: %s' % (m.group(2), m.group(3)), 1)
        s = re.sub(r'\{', '{\nlet mut %s = %s;' % (m.group(2), m.group(2)), s, count=1)
        log.append(('R11-param', m.group(2)))
    # R11s: `mut self` by value -> `self` + a mutable local copy that replaces every use of self in the body
    m = re.match(r'(pub fn \w+\()mut self([,)])', s)
    if m:
        head_end = s.index('{')
        body = re.sub(r'\bself\b', 's_', s[head_end + 1:])
        s = s[:head_end].replace('(mut self', '(self', 1) + '{\nlet mut s_ = self;' + body
        log.append(('R11-self', 1))
    rules = [
        ('R9', r'\b([\w.]+\.0) >= ([\w.]+\.0)\b', r'\1.ge_(&\2)'),
        ('R9', r'\b([\w.]+\.0) < ([\w.]+\.0)\b', r'\1.lt_(&\2)'),
        ('R9', r'\bif (\w+) < \*(FQ|FR)\b', r'if \1.0.lt_(&U256(B256(\2_C)).0)'),
        ('R5', r'&(FQ|FR)_SQUARED\b', r'&U256(B256(\1_SQUARED_C))'),
        ('R5', r'\*(FQ|FR)_INV\b', r'\1_INV_C'),
        ('R5', r'\*(FQ|FR)_ONE\b', r'U256(B256(\1_ONE_C))'),
        ('R5', r'&(FQ|FR)\b(?!_)', r'&U256(B256(\1_C))'),
        ('R5', r'&U256::one\(\)', r'&U256(B256([1, 0, 0, 0]))'),
        ('R5', r'\bU256::zero\(\)', r'U256(B256([0, 0, 0, 0]))'),
    ]
    for name, pat, rep in rules:
        s2, n = re.subn(pat, rep, s)
        if n:
            log.append((name, n))
        s = s2
    s = re.sub(r'^(pub fn [^{]*?)\s*\{', r'\1\n{', s, count=1, flags=re.S)
    return s

def rewrite_inv(src, log):
    """U256::set_bit / div2 / is_one / is_even / invert: rewrite_fp plus
    R9  `if u >= v` on U256 (Ord::cmp delegates to the BigInt comparison) -> `u.0.ge_(&v.0)`;  `X == B256::one()` -> `X.eq_(&B256::one())`
    R12 compound bit assignment `X |= E;` / `X &= E;` -> `X = X | (E);` / `X = X & (E);`"""
    s = src
    rules = [
        ('R9', r'\bif ([a-z_]\w*) >= ([a-z_]\w*) \{', r'if \1.0.ge_(&\2.0) {'),
        ('R9', r'\b([\w.]+) == B256::one\(\)', r'\1.eq_(&B256::one())'),
        ('R12', r'^(\s*)(\S+) \|= ([^;]*);', r'\1\2 = \2 | (\3);'),
        ('R12', r'^(\s*)(?:\} else \{ )?(\S+) &= ([^;]*);', None),
    ]
    for name, pat, rep in rules:
        if rep is None:
            s2, n = re.subn(r'(\S+) &= ([^;]*);', r'\1 = \1 & (\2);', s)
        else:
            s2, n = re.subn(pat, rep, s, flags=re.M)
        if n:
            log.append((name, n))
        s = s2
    return rewrite_fp(s, log)

def rewrite_divrem(src, log):
    """U512::divrem / bit_length: rewrite_fp plus
    R1r  `for i in (0..N).rev() { BODY }` -> `let mut i_ = N; while i_ > 0 { i_ = i_ - 1; let i = i_; BODY }`
    R9   `&r >= modulo` -> `r.0.ge_(&modulo.0)`;  `q.as_ref().unwrap() >= modulo` -> `q.unwrap().0.ge_(&modulo.0)` (U256 is Copy)
    R14  `if q.is_some() && !q.as_mut().unwrap().set_bit(i, true) { q = None; }` -> take / modify / put back (U256 is Copy)
    R15  debug_assert! blocks (`if true|false { if !(..) { panic(..) }; };`) are DROPPED: not verified (debug builds only)"""
    s = src
    s2, n = re.subn(r'for (\w+) in \(0\.\.(\w+)\)\.rev\(\) \{', r'let mut \1_ = \2;\nwhile \1_ > 0 {\n\1_ = \1_ - 1;\nlet \1 = \1_;', s)
    if n:
        log.append(('R1r', n))
    s = s2
    s2, n = re.subn(r'if (\w+)\.is_some\(\) && !\1\.as_mut\(\)\.unwrap\(\)\.set_bit\((\w+), true\) \{\s*\1 = None;\s*\}',
                    r'if \1.is_some() {\nlet mut t_ = \1.unwrap();\nlet ok_ = t_.set_bit(\2, true);\n\1 = Some(t_);\nif !ok_ {\n\1 = None;\n}\n}', s)
    if n:
        log.append(('R14', n))
    s = s2
    s2, n = re.subn(r'if (?:true|false) \{\s*if !\((?:[^{}]|\n)*?\) \{\s*::core::panicking::panic\("assertion failed: [^"]*"\)\s*\};\s*\};', '', s)
    if n:
        log.append(('R15-dropped-debug_assert', n))
    s = s2
    s2, n = re.subn(r'&(\w+) >= (\w+)\b', r'\1.0.ge_(&\2.0)', s)
    if n:
        log.append(('R9', n))
    s = s2
    s2, n = re.subn(r'\((\w+)\.as_ref\(\)\.unwrap\(\) >= (\w+)\)', r'(\1.unwrap().0.ge_(&\2.0))', s)
    if n:
        log.append(('R9', n))
    s = s2
    return rewrite_fp(s, log)

def rewrite_arith(src, log):
    s = src
    s2, n = re.subn(r'\((\w+) as u64, \((\w+) >> 64\) as u64\)', r'(#[verifier::truncate] (\1 as u64), #[verifier::truncate] ((\2 >> 64) as u64))', s)
    if n:
        log.append(('R10', n))
    s = s2
    s = re.sub(r'^(pub const fn [^{]*?)\s*\{', r'\1\n{', s, count=1, flags=re.S)
    return s

def rewrite_while(src, log):
    s = rewrite_small(src, log)
    s2, n = re.subn(r'(while [^\n]*?)\s*\{\s*\}', r'\1\n{\n}', s)
    if n:
        log.append(('brace', n))
    return s2

def desugar_continue(t, log):
    """R16 (on the tidy line form): inside a loop body, `if C { continue; }` followed by the rest R of the body
    ->  `if !(C) { R }`   (Verus does not support `continue` in for-loops; the two forms are equivalent)"""
    lines = t.split('\n')
    i = 0
    while i + 3 < len(lines):
        if lines[i].startswith('if ') and lines[i + 1] == '{' and lines[i + 2] == 'continue;' and lines[i + 3] == '}' and (i + 4 >= len(lines) or lines[i + 4] != 'else'):
            # the enclosing block ends at the first unmatched `}` after the if
            depth = 0
            j = i + 4
            while j < len(lines):
                if lines[j] == '{':
                    depth += 1
                elif lines[j] == '}' or lines[j] == '};':
                    if depth == 0:
                        break
                    depth -= 1
                j += 1
            if j >= len(lines):
                raise ValueError('R16: unmatched block')
            cond = lines[i][3:]
            lines[i:j] = ['if !(%s)' % cond, '{'] + lines[i + 4:j] + ['}']
            log.append(('R16-continue', 1))
        i += 1
    return '\n'.join(lines)

def index_u256(s, log):
    """R3i: `x[i]` on a value of type U256 (Index<usize> for U256 is `self.0.0[i]`) -> `x.0.0[i]`; `FQ[i]` / `FR[i]` -> limb i of the constant"""
    names = set(re.findall(r'\blet (?:mut )?(\w+) = U256\(', s)) | set(re.findall(r'\b(\w+): &?(?:mut )?U256\b', s)) | set(re.findall(r'\blet (?:mut )?(\w+): U256\b', s))
    n = 0
    for nm in sorted(names):
        s, k = re.subn(r'(?<![\w.])%s\[' % re.escape(nm), nm + '.0.0[', s)
        n += k
    s, k = re.subn(r'(?<![\w.&*])(FQ|FR)\[(\w+)\]', r'\1_C[\2]', s)
    n += k
    if n:
        log.append(('R3i', n))
    return s

def tidy(s):
    """canonical line form of extracted text: whitespace-normalised, every brace on its own line (outside string literals),
    so that annotation lines can be inserted anywhere between statements"""
    out = []
    cur = []
    i = 0
    n = len(s)
    def flush():
        t = ' '.join(''.join(cur).split())
        if t:
            out.append(t)
        del cur[:]
    while i < n:
        c = s[i]
        if c == '"':
            j = i + 1
            while j < n and s[j] != '"':
                if s[j] == '\\':
                    j += 1
                j += 1
            cur.append(s[i:j + 1])
            i = j + 1
            continue
        if c in '{}':
            flush()
            # keep a trailing `;` or `,` or `)` with the closing brace:  `};`  `})`
            k = i + 1
            tail = ''
            if c == '}':
                while k < n and s[k] in ' \t\n':
                    k += 1
                if k < n and s[k] in ';,)':
                    tail = s[k]
                    k += 1
                    if tail == ')' :
                        kk = k
                        while kk < n and s[kk] in ' \t\n':
                            kk += 1
                        if kk < n and s[kk] == ';':
                            tail += ';'
                            k = kk + 1
                else:
                    k = i + 1
            out.append(c + tail)
            i = k
            continue
        if c == '\n':
            flush()
            i += 1
            continue
        cur.append(c)
        i += 1
    flush()
    return '\n'.join(out) + '\n'

if __name__ == '__main__':
    text = open(sys.argv[1]).read()
    fn = find_fn(text, r'fn mul_without_cond_subtract\(')
    log = []
    out = rewrite_mul(fn, log)
    sys.stdout.write(tidy(out))
    sys.stderr.write(repr(log) + '\n')
