// Development form of annot/fp.rs: the linear operations of U256 (src/u256.rs) and the Fq instance of field_impl! (src/fields/fp.rs)
// with postconditions on the Montgomery VALUE  val(x) = U(x) * R^-1 mod q  (what the canonical encoding shows).
verus! {
impl B256 {
    #[verifier::external_body]
    pub fn lt_(&self, other: &B256) -> (r: bool)
        ensures r == (UB(*self) < UB(*other))
    { unimplemented!() }
    #[verifier::external_body]
    pub fn mul2(&mut self) -> (carry: bool)
        ensures UB(*final(self)) + (if carry { pw(4) } else { 0 }) == 2 * UB(*old(self)),
    { unimplemented!() }
    #[verifier::external_body]
    pub fn is_zero(&self) -> (r: bool)
        ensures r == (UB(*self) == 0)
    { unimplemented!() }
}
pub open spec fn val(x: Fq) -> nat { (U(x.0) * RINV()) % QN() }
pub open spec fn wf(x: Fq) -> bool { U(x.0) < QN() }
pub open spec fn cong(a: int, b: int, q: int) -> bool { a % q == b % q }

pub proof fn lemma_cong_mul(a: int, b: int, c: int, q: int)
    requires q > 0, cong(a, b, q),
    ensures cong(a * c, b * c, q),
{
    lemma_mul_mod_noop_left(a, c, q);
    lemma_mul_mod_noop_left(b, c, q);
}
pub proof fn lemma_r_rinv(x: int)
    ensures cong(x * pw(4) as int * RINV() as int, x, QN() as int),
{
    lemma_consts(); lemma_lits();
    let q = QN() as int; let r = pw(4) as int; let ri = RINV() as int;
    assert(x * r * ri == x * (r * ri)) by(nonlinear_arith);
    lemma_mul_mod_noop_right(x, r * ri, q);
    assert((r * ri) % q == 1);
    assert(x * 1 == x);
}
// z*R = x*y (mod q)  ==>  val(z) = val(x)*val(y) (mod q)
pub proof fn lemma_val_mul(z: nat, x: nat, y: nat)
    requires (z * pw(4)) % QN() == (x * y) % QN(),
    ensures (z * RINV()) % QN() == (((x * RINV()) % QN()) * ((y * RINV()) % QN())) % QN(),
{
    lemma_consts();
    let q = QN() as int; let r = pw(4) as int; let ri = RINV() as int;
    let zi = z as int; let xi = x as int; let yi = y as int;
    // z*ri = (z*r*ri)*ri ... : multiply the hypothesis by ri twice
    assert(cong(zi * r, xi * yi, q));
    lemma_cong_mul(zi * r, xi * yi, ri * ri, q);
    assert(zi * r * (ri * ri) == (zi * ri) * r * ri) by(nonlinear_arith);
    lemma_r_rinv(zi * ri);
    assert(cong(zi * ri, xi * yi * (ri * ri), q));
    assert(xi * yi * (ri * ri) == (xi * ri) * (yi * ri)) by(nonlinear_arith);
    lemma_mul_mod_noop(xi * ri, yi * ri, q);
}
pub proof fn lemma_val_lin(z: nat, x: int, y: int)
    requires QN() > 0, z as int % (QN() as int) == (x + y) % (QN() as int),
    ensures (z * RINV()) as int % (QN() as int) == ((x * RINV() as int) % (QN() as int) + (y * RINV() as int) % (QN() as int)) % (QN() as int),
{
    let q = QN() as int; let ri = RINV() as int;
    lemma_cong_mul(z as int, x + y, ri, q);
    assert((x + y) * ri == x * ri + y * ri) by(nonlinear_arith);
    lemma_add_mod_noop(x * ri, y * ri, q);
}
pub proof fn lemma_small(z: nat, q: nat)
    requires z < q,
    ensures z % q == z,
{ lemma_small_mod(z, q); }

impl U256 {
//@BEGIN u256_is_zero
pub fn is_zero(&self) -> (res: bool)
    ensures res == (U(*self) == 0),
{
self.0.is_zero()
}
//@END
//@BEGIN u256_add
pub fn add(&mut self, other: &U256, modulo: &U256)
    requires U(*old(self)) < U(*modulo), U(*other) < U(*modulo),
    ensures U(*final(self)) < U(*modulo), U(*final(self)) == (U(*old(self)) + U(*other)) % U(*modulo),
{
let carry = self.0.add_with_carry(&other.0);
self.subtract_modulus_with_carry(modulo, carry);
proof {
    let s = U(*old(self)) + U(*other); let m = U(*modulo);
    if s >= m { lemma_fundamental_div_mod_converse(s as int, m as int, 1, s as int - m as int); }
    else { lemma_small_mod(s, m); }
}
}
//@END
//@BEGIN u256_sub
pub fn sub(&mut self, other: &U256, modulo: &U256)
    requires U(*old(self)) < U(*modulo), U(*other) < U(*modulo),
    ensures U(*final(self)) < U(*modulo), U(*final(self)) as int == (U(*old(self)) as int - U(*other) as int) % (U(*modulo) as int),
{
proof { lemma_pre_bound(old(self).0.0@, 4); lemma_pre_bound(modulo.0.0@, 4); lemma_pre_bound(other.0.0@, 4); }
if self.0.lt_(&other.0)
{
self.0.add_with_carry(&modulo.0);
}
self.0.sub_with_borrow(&other.0);
proof {
    let d = U(*old(self)) as int - U(*other) as int; let m = U(*modulo) as int;
    lemma_pre_bound(self.0.0@, 4);
    if d < 0 { lemma_fundamental_div_mod_converse(d, m, -1, d + m); }
    else { lemma_small_mod(d as nat, m as nat); }
}
}
//@END
//@BEGIN u256_neg
pub fn neg(&mut self, modulo: &U256)
    requires U(*old(self)) < U(*modulo),
    ensures U(*final(self)) < U(*modulo), U(*final(self)) as int == (-(U(*old(self)) as int)) % (U(*modulo) as int),
{
proof { lemma_pre_bound(old(self).0.0@, 4); lemma_pre_bound(modulo.0.0@, 4); }
if !self.is_zero()
{
let mut tmp = modulo.0;
tmp.sub_with_borrow(&self.0);
self.0 = tmp;
proof {
    let x = U(*old(self)) as int; let m = U(*modulo) as int;
    lemma_fundamental_div_mod_converse(-x, m, -1, m - x);
}
}
else
{
proof { lemma_small_mod(0, U(*modulo)); }
}
}
//@END
//@BEGIN u256_mul2
pub fn mul2(&mut self, modulo: &U256)
    requires U(*old(self)) < U(*modulo),
    ensures U(*final(self)) < U(*modulo), U(*final(self)) == (2 * U(*old(self))) % U(*modulo),
{
let c = self.0.mul2();
self.subtract_modulus_with_carry(modulo, c);
proof {
    let s = 2 * U(*old(self)); let m = U(*modulo);
    if s >= m { lemma_fundamental_div_mod_converse(s as int, m as int, 1, s as int - m as int); }
    else { lemma_small_mod(s, m); }
}
}
//@END
}

// link between the literals and the spec functions
pub proof fn lemma_lits()
    ensures QN() == QLIT(), U(U256(B256(FQ_SQUARED_C))) == R2LIT(), U(U256(B256(FQ_ONE_C))) == ONELIT(),
            U(U256(B256([1, 0, 0, 0]))) == 1, U(U256(B256([0, 0, 0, 0]))) == 0,
            pw(4) == 0x1_0000_0000_0000_0000_0000_0000_0000_0000_0000_0000_0000_0000_0000_0000_0000_0000nat,
            (pw(4) * RINV()) % QN() == 1, RINV() < QN(), R2LIT() == (pw(4) * pw(4)) % QN(), ONELIT() == pw(4) % QN(),
{
    lemma_consts_gen(); lemma_lits_gen(); lemma_rinv_gen(); lemma_r2_gen(); lemma_pw_values();
    reveal_with_fuel(pre, 5);
    let one = U256(B256([1, 0, 0, 0])); let z = U256(B256([0, 0, 0, 0]));
    assert(one.0.0@[0] == 1 && one.0.0@[1] == 0 && one.0.0@[2] == 0 && one.0.0@[3] == 0);
    assert(z.0.0@[0] == 0 && z.0.0@[1] == 0 && z.0.0@[2] == 0 && z.0.0@[3] == 0);
    assert(pre(FQ_C@, 4) == FQ_C@[0] as nat * pw(0) + FQ_C@[1] as nat * pw(1) + FQ_C@[2] as nat * pw(2) + FQ_C@[3] as nat * pw(3));
    assert(QN() == QLIT()) by(compute_only);
}

impl U256 {
//@BEGIN fq_into_u256
pub fn from(a: Fq) -> (res: Self)
    requires wf(a),
    ensures U(res) == val(a), U(res) < QN(),
{
let ghost a0 = a;
let mut a = a;
proof { lemma_consts(); lemma_lits(); assert(U(a.0) * 1 < pw(4) * QN()) by(nonlinear_arith) requires U(a.0) < QN(), QN() < pw(4), pw(4) > 0; }
a.0.mul(&U256(B256([1, 0, 0, 0])), &U256(B256(FQ_C)), FQ_INV_C);
proof {
    // U(out)*R = U(a0) (mod q)  ==>  U(out) = U(a0)*Rinv (mod q), and U(out) < q
    let z = U(a.0) as int; let x = U(a0.0) as int; let q = QN() as int; let r = pw(4) as int; let ri = RINV() as int;
    assert(x * 1 == x);
    lemma_cong_mul(z * r, x, ri, q);
    lemma_r_rinv(z);
    assert(z * r * ri == z * r * ri);
    lemma_small_mod(z as nat, q as nat);
}
a.0
}
//@END
}
impl Fq {
//@BEGIN fq_new
pub fn new(a: U256) -> (res: Option<Self>)
    ensures res.is_some() == (U(a) < QN()), res.is_some() ==> wf(res.unwrap()) && val(res.unwrap()) == U(a),
{
let ghost a0 = a;
let mut a = a;
proof { lemma_consts(); lemma_lits(); }
if a.0.lt_(&U256(B256(FQ_C)).0)
{
if !a.is_zero()
{
proof { assert(U(a) * R2LIT() < pw(4) * QN()) by(nonlinear_arith) requires U(a) < QN(), R2LIT() < QN(), QN() < pw(4); lemma_mod_bound((pw(4) * pw(4)) as int, QN() as int); }
a.mul(&U256(B256(FQ_SQUARED_C)), &U256(B256(FQ_C)), FQ_INV_C);
proof { lemma_new_val(U(a), U(a0)); }
}
else
{
proof { assert(0 * RINV() == 0); lemma_small_mod(0, QN()); }
}
Some(Fq(a))
}
else
{
None
}
}
//@END
//@BEGIN fq_new_mul_factor
pub fn new_mul_factor(a: U256) -> (res: Self)
    ensures wf(res), val(res) == U(a) % QN(),
{
let ghost a0 = a;
let mut a = a;
proof { lemma_consts(); lemma_lits(); lemma_pre_bound(a.0.0@, 4); lemma_mod_bound((pw(4) * pw(4)) as int, QN() as int);
        assert(U(a) * R2LIT() < pw(4) * QN()) by(nonlinear_arith) requires U(a) < pw(4), R2LIT() < QN(); }
a.mul(&U256(B256(FQ_SQUARED_C)), &U256(B256(FQ_C)), FQ_INV_C);
proof { lemma_new_val_mod(U(a), U(a0)); }
Fq(a)
}
//@END
//@BEGIN fq_add_inplace
pub fn add_inplace(&self, other: &Fq) -> (res: Fq)
    requires wf(*self), wf(*other),
    ensures wf(res), val(res) == (val(*self) + val(*other)) % QN(),
{
proof { lemma_consts(); }
let mut a = self.0;
a.add(&other.0, &U256(B256(FQ_C)));
proof { lemma_mod_twice(U(self.0) as int + U(other.0) as int, QN() as int);
        lemma_val_lin(U(a), U(self.0) as int, U(other.0) as int); }
Fq(a)
}
//@END
//@BEGIN fq_sub_inplace
pub fn sub_inplace(&self, other: &Fq) -> (res: Fq)
    requires wf(*self), wf(*other),
    ensures wf(res), val(res) as int == (val(*self) as int - val(*other) as int) % (QN() as int),
{
proof { lemma_consts(); }
let mut a = self.0;
a.sub(&other.0, &U256(B256(FQ_C)));
proof { lemma_mod_twice(U(self.0) as int - U(other.0) as int, QN() as int);
        lemma_val_lin(U(a), U(self.0) as int, -(U(other.0) as int));
        lemma_neg_mod(U(other.0) as int * RINV() as int, QN() as int);
        assert((-(U(other.0) as int)) * RINV() as int == -(U(other.0) as int * RINV() as int)) by(nonlinear_arith);
        lemma_sub_mod_noop(U(self.0) as int * RINV() as int, U(other.0) as int * RINV() as int, QN() as int);
        assert(U(self.0) as int * RINV() as int - U(other.0) as int * RINV() as int == (U(self.0) as int - U(other.0) as int) * RINV() as int) by(nonlinear_arith);
        lemma_cong_mul(U(a) as int, U(self.0) as int - U(other.0) as int, RINV() as int, QN() as int); }
Fq(a)
}
//@END
//@BEGIN fq_mul_inplace
pub fn mul_inplace(&self, other: &Fq) -> (res: Fq)
    requires wf(*self), wf(*other),
    ensures wf(res), val(res) == (val(*self) * val(*other)) % QN(),
{
proof { lemma_consts(); assert(U(self.0) * U(other.0) < pw(4) * QN()) by(nonlinear_arith) requires U(self.0) < QN(), U(other.0) < QN(), QN() < pw(4); }
let mut a = self.0;
a.mul(&other.0, &U256(B256(FQ_C)), FQ_INV_C);
proof { lemma_val_mul(U(a), U(self.0), U(other.0)); }
Fq(a)
}
//@END
//@BEGIN fq_squared
pub fn squared(&self) -> (res: Self)
    requires wf(*self),
    ensures wf(res), val(res) == (val(*self) * val(*self)) % QN(),
{
proof { lemma_consts(); assert(U(self.0) * U(self.0) < pw(4) * QN()) by(nonlinear_arith) requires U(self.0) < QN(), QN() < pw(4); }
let mut a = self.0;
a.square(&U256(B256(FQ_C)), FQ_INV_C);
proof { lemma_val_mul(U(a), U(self.0), U(self.0)); }
Fq(a)
}
//@END
//@BEGIN fq_neg_inplace
pub fn neg_inplace(&self) -> (res: Fq)
    requires wf(*self),
    ensures wf(res), val(res) as int == (-(val(*self) as int)) % (QN() as int),
{
proof { lemma_consts(); }
let mut a = self.0;
a.neg(&U256(B256(FQ_C)));
proof { lemma_mod_twice(-(U(self.0) as int), QN() as int);
        lemma_cong_mul(U(a) as int, -(U(self.0) as int), RINV() as int, QN() as int);
        assert((-(U(self.0) as int)) * RINV() as int == -(U(self.0) as int * RINV() as int)) by(nonlinear_arith);
        lemma_neg_mod(U(self.0) as int * RINV() as int, QN() as int); }
Fq(a)
}
//@END
//@BEGIN fq_double
pub fn double(&self) -> (res: Self)
    requires wf(*self),
    ensures wf(res), val(res) == (2 * val(*self)) % QN(),
{
proof { lemma_consts(); }
let mut a = self.0;
a.mul2(&U256(B256(FQ_C)));
proof { lemma_mod_twice(2 * U(self.0) as int, QN() as int);
        lemma_val_lin(U(a), U(self.0) as int, U(self.0) as int);
        assert(U(self.0) as int + U(self.0) as int == 2 * U(self.0) as int);
        lemma_add_mod_noop((U(self.0) * RINV()) as int, (U(self.0) * RINV()) as int, QN() as int);
        lemma_mul_mod_noop_right(2, (U(self.0) * RINV()) as int, QN() as int); }
Fq(a)
}
//@END
}
pub proof fn lemma_mod_twice(x: int, q: int)
    requires q > 0,
    ensures (x % q) % q == x % q,
{ lemma_mod_twice_v(x, q); }
pub proof fn lemma_mod_twice_v(x: int, q: int)
    requires q > 0,
    ensures (x % q) % q == x % q,
{ lemma_mod_bound(x, q); lemma_small_mod((x % q) as nat, q as nat); }
// (-x) % q == (-(x % q)) % q
pub proof fn lemma_neg_mod(x: int, q: int)
    requires q > 0,
    ensures (-x) % q == (-(x % q)) % q,
{
    lemma_fundamental_div_mod(x, q);
    let d = x / q;
    assert(-x == (-d) * q + (-(x % q))) by(nonlinear_arith) requires x == q * d + x % q;
    lemma_mod_multiples_vanish(-d, -(x % q), q);
}
// z*R = a*R2 (mod q), R2 = R^2 mod q  ==>  z*Rinv = a (mod q)
pub proof fn lemma_new_val_mod(z: nat, a: nat)
    requires (z * pw(4)) % QN() == (a * R2LIT()) % QN(), z < QN(),
    ensures (z * RINV()) % QN() == a % QN(),
{
    lemma_consts(); lemma_lits();
    let q = QN() as int; let r = pw(4) as int; let ri = RINV() as int; let zi = z as int; let ai = a as int;
    // a*R2 = a*R*R (mod q)
    lemma_mul_mod_noop_right(ai, r * r, q);
    assert(cong(zi * r, ai * (r * r), q));
    lemma_cong_mul(zi * r, ai * (r * r), ri * ri, q);
    assert(zi * r * (ri * ri) == (zi * ri) * r * ri) by(nonlinear_arith);
    lemma_r_rinv(zi * ri);
    assert(ai * (r * r) * (ri * ri) == ((ai * r * ri) * r) * ri) by(nonlinear_arith);
    lemma_r_rinv(ai * r * ri);
    lemma_r_rinv(ai);
}
pub proof fn lemma_new_val(z: nat, a: nat)
    requires (z * pw(4)) % QN() == (a * R2LIT()) % QN(), z < QN(), a < QN(),
    ensures (z * RINV()) % QN() == a,
{
    lemma_new_val_mod(z, a);
    lemma_small_mod(a, QN());
}
pub proof fn lemma_one_val()
    ensures true,
{ }
} // verus!
