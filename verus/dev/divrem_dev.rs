// Development form of annot/divrem.rs: U512::bit_length / U512::divrem (src/u512.rs; bit-serial long division).
// Proved: the REMAINDER  res.1 == self mod modulo  and  res.1 < modulo  for every 512-bit self and every modulo > 0.
// The quotient component (res.0) carries no postcondition (no caller in the crate uses it); the debug_assert! block is dropped (R15).
verus! {
#[derive(Clone, Copy)]
pub struct B512(pub [u64; 8]);
#[derive(Clone, Copy)]
pub struct U512(pub B512);
pub open spec fn U5(x: U512) -> nat { pre(x.0.0@, 8) }
pub open spec fn p2(n: nat) -> nat decreases n { if n == 0 { 1 } else { 2 * p2((n - 1) as nat) } }
pub open spec fn limb_bit(x: u64, j: u64) -> bool { ((x >> j) & 1) == 1 }

// ark_ff::BigInt<8> (assumption A6; limb-level contracts, proved by the Kani harness ark_b512_contract)
impl B512 {
    #[verifier::external_body]
    pub fn get_bit(&self, i: usize) -> (r: bool)
        ensures i < 512 ==> r == limb_bit(self.0@[(i / 64) as int], (i % 64) as u64)
    { unimplemented!() }
    #[verifier::external_body]
    pub fn num_bits(&self) -> (r: u32)
        ensures r <= 512,
            r == 0 ==> (forall|k: int| 0 <= k < 8 ==> self.0@[k] == 0),
            r > 0 ==> (forall|k: int| (r - 1) / 64 < k < 8 ==> self.0@[k] == 0) && (self.0@[((r - 1) / 64) as int] >> (((r - 1) % 64) as u64)) <= 1,
    { unimplemented!() }
}

pub proof fn lemma_p2_pos(n: nat)
    ensures p2(n) > 0,
    decreases n,
{ if n > 0 { lemma_p2_pos((n - 1) as nat); } }

pub proof fn lemma_p2_add(a: nat, b: nat)
    ensures p2(a + b) == p2(a) * p2(b),
    decreases b,
{
    if b == 0 { assert(p2(a) * 1 == p2(a)); }
    else {
        lemma_p2_add(a, (b - 1) as nat);
        assert(p2(a + b) == 2 * p2((a + b - 1) as nat));
        assert(p2(a) * (2 * p2((b - 1) as nat)) == 2 * (p2(a) * p2((b - 1) as nat))) by(nonlinear_arith);
    }
}
pub proof fn lemma_p2_64()
    ensures p2(64) == B(), p2(63) == 0x8000_0000_0000_0000nat, p2(1) == 2, p2(0) == 1,
{ assert(p2(64) == 0x1_0000_0000_0000_0000nat && p2(63) == 0x8000_0000_0000_0000nat && p2(1) == 2 && p2(0) == 1) by(compute_only); }

pub proof fn lemma_pw_p2(k: nat)
    ensures pw(k as int) == p2(64 * k),
    decreases k,
{
    lemma_p2_64();
    if k > 0 {
        lemma_pw_p2((k - 1) as nat);
        lemma_p2_add(64, (64 * (k - 1)) as nat);
        assert(64 + 64 * (k - 1) == 64 * k);
    }
}

pub proof fn lemma_shr_div(x: u64, j: u64)
    requires j < 64,
    ensures (x >> j) as nat == x as nat / p2(j as nat),
    decreases j,
{
    if j == 0 { assert(x >> 0u64 == x) by(bit_vector); assert(x as nat / 1 == x as nat); }
    else {
        let j1 = (j - 1) as u64;
        lemma_shr_div(x, j1);
        assert((x >> j) == (x >> j1) / 2) by(bit_vector) requires j1 + 1 == j, j < 64;
        lemma_p2_pos(j1 as nat);
        lemma_div_denominator(x as int, p2(j1 as nat) as int, 2);
        assert(p2(j as nat) == 2 * p2(j1 as nat));
        assert(p2(j1 as nat) * 2 == 2 * p2(j1 as nat));
    }
}

pub proof fn lemma_pre_split(s: Seq<u64>, k: int, n: int)
    requires 0 <= k <= n <= s.len(),
    ensures pre(s, n) == pre(s, k) + pw(k) * pre(s.subrange(k, n), n - k),
    decreases n - k,
{
    if n == k {
        assert(pre(s.subrange(k, n), 0) == 0);
        assert(pw(k) * 0 == 0);
    } else {
        lemma_pre_split(s, k, n - 1);
        let t = s.subrange(k, n); let t1 = s.subrange(k, n - 1);
        assert(pre(t, n - k) == pre(t, n - k - 1) + t[n - k - 1] as nat * pw(n - k - 1));
        assert(pre(t, n - k - 1) == pre(t1, n - k - 1)) by { lemma_pre_ext(t, t1, n - k - 1); }
        assert(t[n - k - 1] == s[n - 1]);
        lemma_pw_add(k, n - k - 1);
        let a = pre(t1, n - k - 1); let x = s[n - 1] as nat; let P = pw(k); let Q = pw(n - k - 1);
        assert(P * (a + x * Q) == P * a + x * (P * Q)) by(nonlinear_arith);
    }
}

// bit i of an L-limb value is bit (i mod 64) of limb i / 64
pub proof fn lemma_bit_of(s: Seq<u64>, L: int, i: nat)
    requires s.len() == L, i < 64 * L,
    ensures ((pre(s, L) / p2(i)) % 2 == 1) == limb_bit(s[(i / 64) as int], (i % 64) as u64),
{
    let k = (i / 64) as int; let j = (i % 64) as nat;
    let V = pre(s, L); let lo = pre(s, k); let P = pw(k);
    lemma_pre_split(s, k, L);
    let t = s.subrange(k, L);
    lemma_pre_split(t, 1, L - k);
    let T2 = pre(t.subrange(1, L - k), L - k - 1);
    let x = s[k] as nat;
    reveal_with_fuel(pre, 2);
    assert(pre(t, 1) == t[0] as nat * pw(0));
    assert(t[0] == s[k]);
    assert(pw(0) == 1);
    assert(t[0] as nat * pw(0) == x) by(nonlinear_arith) requires pw(0) == 1, t[0] as nat == x;
    assert(pw(1) == B()) by { reveal_with_fuel(pw, 2); }
    let Y = x + B() * T2;
    assert(V == lo + P * Y);
    lemma_pre_bound(s, k);
    lemma_pw_p2(k as nat);
    lemma_p2_add((64 * k) as nat, j);
    assert(64 * k + j == i);
    lemma_p2_pos(j); lemma_p2_pos((64 * k) as nat);
    // V / (P * 2^j) == (V / P) / 2^j == Y / 2^j
    lemma_div_denominator(V as int, P as int, p2(j) as int);
    assert(P * Y == Y * P) by(nonlinear_arith);
    lemma_fundamental_div_mod_converse(V as int, P as int, Y as int, lo as int);
    assert(V / P == Y);
    // Y / 2^j == x / 2^j + 2^(64 - j) * T2
    lemma_p2_add(j, (64 - j) as nat);
    lemma_p2_64();
    let c = p2((64 - j) as nat) * T2;
    assert(B() * T2 == c * p2(j)) by(nonlinear_arith) requires B() == p2(j) * p2((64 - j) as nat), c == p2((64 - j) as nat) * T2;
    lemma_hoist_over_denominator(x as int, c as int, p2(j));
    assert(Y / p2(j) == x / p2(j) + c);
    // 2^(64 - j) is even
    assert(p2((64 - j) as nat) == 2 * p2((63 - j) as nat));
    let e = p2((63 - j) as nat) * T2;
    assert(c == 2 * e) by(nonlinear_arith) requires c == p2((64 - j) as nat) * T2, p2((64 - j) as nat) == 2 * p2((63 - j) as nat), e == p2((63 - j) as nat) * T2;
    lemma_mod_multiples_vanish(e as int, (x / p2(j)) as int, 2);
    assert((2 * e + x / p2(j)) % 2 == (x / p2(j)) % 2);
    assert((Y / p2(j)) % 2 == (x / p2(j)) % 2);
    lemma_shr_div(s[k], j as u64);
    let y = s[k] >> (j as u64);
    assert(((y & 1) == 1) == (y % 2 == 1)) by(bit_vector);
}

// the value is below 2^bits when bits is the bit length
pub proof fn lemma_numbits(s: Seq<u64>, bits: nat)
    requires s.len() == 8, bits <= 512,
        bits == 0 ==> (forall|k: int| 0 <= k < 8 ==> s[k] == 0),
        bits > 0 ==> (forall|k: int| (bits - 1) / 64 < k < 8 ==> s[k] == 0) && (s[((bits - 1) / 64) as int] >> (((bits - 1) % 64) as u64)) <= 1,
    ensures pre(s, 8) < p2(bits),
{
    if bits == 0 {
        lemma_tail(s, 0, 8);
        assert(pre(s, 0) == 0);
    } else {
        let k = ((bits - 1) / 64) as int; let j = ((bits - 1) % 64) as nat;
        lemma_tail(s, k + 1, 8);
        assert(pre(s, 8) == pre(s, k + 1));
        assert(pre(s, k + 1) == pre(s, k) + s[k] as nat * pw(k));
        lemma_pre_bound(s, k);
        let x = s[k];
        lemma_shr_div(x, j as u64);
        lemma_p2_pos(j);
        // x / 2^j <= 1  ==>  x < 2^(j+1)
        lemma_fundamental_div_mod(x as int, p2(j) as int);
        lemma_mod_bound(x as int, p2(j) as int);
        let d = (x as nat) / p2(j);
        assert(p2(j) * d <= p2(j)) by(nonlinear_arith) requires d <= 1;
        assert((x as nat) < 2 * p2(j));
        assert(p2(j + 1) == 2 * p2(j));
        lemma_pw_p2(k as nat);
        lemma_p2_add((64 * k) as nat, j + 1);
        assert(64 * k + (j + 1) == bits);
        let P = pw(k);
        assert(pre(s, k) + x as nat * P < p2(j + 1) * P) by(nonlinear_arith)
            requires pre(s, k) < P, (x as nat) < p2(j + 1), (x as nat) + 1 <= p2(j + 1);
        assert(p2(j + 1) * P == P * p2(j + 1)) by(nonlinear_arith);
    }
}

// one step of the long division on the remainder
pub proof fn lemma_div_step(V: nat, i: nat, m: nat, r0: nat, t: nat, r1: nat, b: nat)
    requires m > 0, r0 == (V / p2(i + 1)) % m, b == (V / p2(i)) % 2, t == 2 * r0 + b, r1 < m, r1 == t || r1 + m == t,
    ensures r1 == (V / p2(i)) % m,
{
    let H = V / p2(i + 1); let H1 = V / p2(i);
    lemma_p2_pos(i);
    assert(p2(i + 1) == 2 * p2(i));
    assert(p2(i) * 2 == 2 * p2(i));
    lemma_div_denominator(V as int, p2(i) as int, 2);
    assert(H == H1 / 2);
    lemma_fundamental_div_mod(H1 as int, 2);
    assert(H1 == 2 * H + b);
    let mi = m as int;
    lemma_mul_mod_noop_right(2, H as int, mi);
    lemma_add_mod_noop(2 * (r0 as int), b as int, mi);
    lemma_add_mod_noop(2 * (H as int), b as int, mi);
    assert((t as int) % mi == (H1 as int) % mi);
    if r1 == t { lemma_small_mod(r1, m); }
    else { lemma_fundamental_div_mod_converse(t as int, mi, 1, r1 as int); }
}

impl U512 {
//@BEGIN bit_length
pub fn bit_length(&self) -> (res: usize)
    ensures res <= 512,
        res == 0 ==> (forall|k: int| 0 <= k < 8 ==> self.0.0@[k] == 0),
        res > 0 ==> (forall|k: int| (res - 1) / 64 < k < 8 ==> self.0.0@[k] == 0) && (self.0.0@[((res - 1) / 64) as int] >> (((res - 1) % 64) as u64)) <= 1,
{
self.0.num_bits() as usize
}
//@END
//@BEGIN divrem
pub fn divrem(&self, modulo: &U256) -> (res: (Option<U256>, U256))
    requires U(*modulo) > 0,
    ensures U(res.1) == U5(*self) % U(*modulo), U(res.1) < U(*modulo),
{
let mut q = Some(U256(B256([0, 0, 0, 0])));
let mut r = U256(B256([0, 0, 0, 0]));
let bits = self.bit_length();
let ghost V = U5(*self);
let ghost m = U(*modulo);
proof {
    reveal_with_fuel(pre, 5);
    assert(U(r) == 0) by { assert(0 * pw(0) == 0 && 0 * pw(1) == 0 && 0 * pw(2) == 0 && 0 * pw(3) == 0); }
    lemma_numbits(self.0.0@, bits as nat);
    lemma_p2_pos(bits as nat);
    lemma_basic_div(V as int, p2(bits as nat) as int);
    lemma_small_mod(0, m);
    lemma_pre_bound(modulo.0.0@, 4);
}
let mut i_ = bits;
while i_ > 0
    invariant
        i_ <= bits, bits <= 512, V == U5(*self), m == U(*modulo), m > 0, m < pw(4),
        U(r) < m, U(r) == (V / p2(i_ as nat)) % m,
    decreases i_,
{
i_ = i_ - 1;
let i = i_;
let ghost r0 = r;
let carry = r.0.mul2();
let ghost r1 = r;
proof {
    assert(0usize >> 6 == 0 && (0usize & 0x3f) == 0) by(bit_vector);
    assert((1u64 << 0u64) == 1) by(bit_vector);
    lemma_pre_bound(r1.0.0@, 4);
    lemma_low_limb(r1.0.0@, r1.0.0@);
    lemma_pw_values();
}
r.set_bit(0, self.0.get_bit(i));
let ghost b: nat = if limb_bit(self.0.0@[(i / 64) as int], (i % 64) as u64) { 1 } else { 0 };
proof {
    let l = r1.0.0@[0];
    // 2 * U(r0) = U(r1) + carry * 2^256 is even, so the low limb of r1 is even and set_bit(0, bit) adds the bit
    assert(U(r1) % 2 == 0) by {
        if carry { lemma_mod_multiples_vanish(U(r0) as int - 0x8000_0000_0000_0000_0000_0000_0000_0000_0000_0000_0000_0000_0000_0000_0000_0000int, 0, 2); }
        else { lemma_mod_multiples_vanish(U(r0) as int, 0, 2); }
    }
    assert(l % 2 == 0);
    assert((l | 1) == l + 1 && (l & !1u64) == l) by(bit_vector) requires l % 2 == 0;
    lemma_low_limb(r1.0.0@, r.0.0@);
    assert(U(r) == U(r1) + b);
    lemma_bit_of(self.0.0@, 8, i as nat);
    lemma_pre_bound(r.0.0@, 4);
}
let ghost r2 = r;
if r.0.ge_(&modulo.0) || carry
{
r.0.sub_with_borrow(&modulo.0);
proof { lemma_pre_bound(r.0.0@, 4); }
if q.is_some()
{
let mut t_ = q.unwrap();
let ok_ = t_.set_bit(i, true);
q = Some(t_);
if !ok_
{
q = None;
}
}
}
proof {
    let t = 2 * U(r0) + b;
    assert(t == U(r2) + (if carry { pw(4) } else { 0 }));
    assert(t < 2 * m);
    lemma_div_step(V, i as nat, m, U(r0), t, U(r), b);
}
}
proof { assert(p2(0) == 1); assert(V / 1 == V); }
if q.is_some() && (q.unwrap().0.ge_(&modulo.0))
{
(None, r)
}
else
{
(q, r)
}
}
//@END
}

// ---- bit access used by scalar multiplication and exponentiation (src/u256.rs)
impl B256 {
    #[verifier::external_body]
    pub fn get_bit(&self, i: usize) -> (r: bool)
        ensures i < 256 ==> r == limb_bit(self.0@[(i / 64) as int], (i % 64) as u64)
    { unimplemented!() }
}
pub open spec fn bit_of(x: U256, n: nat) -> bool { (U(x) / p2(n)) % 2 == 1 }
pub struct BitIterator<'a> { pub int: &'a U256, pub n: usize }

impl U256 {
//@BEGIN u256_get_bit
pub fn get_bit(&self, n: usize) -> (res: Option<bool>)
    ensures n >= 256 ==> res.is_none(), n < 256 ==> res == Some(bit_of(*self, n as nat)),
{
if n >= 256
{
None
}
else
{
proof { lemma_bit_of(self.0.0@, 4, n as nat); }
Some(self.0.get_bit(n))
}
}
//@END
//@BEGIN u256_bits
pub fn bits(&self) -> (res: BitIterator)
    ensures res.n == 256, *res.int == *self,
{
BitIterator
{
int: self, n: 256
}
}
//@END
}
impl<'a> BitIterator<'a> {
//@BEGIN bititer_next
pub fn next(&mut self) -> (res: Option<bool>)
    requires old(self).n <= 256,
    ensures old(self).n == 0 ==> res.is_none() && final(self).n == 0,
            old(self).n > 0 ==> final(self).n == old(self).n - 1 && res == Some(bit_of(*old(self).int, (old(self).n - 1) as nat)),
            *final(self).int == *old(self).int,
{
if self.n == 0
{
None
}
else
{
self.n -= 1; self.int.get_bit(self.n)
}
}
//@END
}
}
