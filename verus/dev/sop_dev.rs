// Development form of annot/sop.rs (markers are added by mark_annot.py): adc, mac (src/arith.rs), U256::add_carry (src/u256.rs)
// and Fq::sum_of_products (src/fields/fp.rs, Longa's Algorithm 2).
verus! {
#[derive(Clone, Copy)]
pub struct Fq(pub U256);
pub open spec fn QN() -> nat { pre(FQ_C@, 4) }
pub open spec fn val5(u: (u64, u64, u64, u64, u64)) -> nat {
    u.0 as nat + u.1 as nat * pw(1) + u.2 as nat * pw(2) + u.3 as nat * pw(3) + u.4 as nat * pw(4)
}
pub open spec fn val6(t: (u64, u64, u64, u64, u64, u64)) -> nat {
    t.0 as nat + t.1 as nat * pw(1) + t.2 as nat * pw(2) + t.3 as nat * pw(3) + t.4 as nat * pw(4) + t.5 as nat * pw(5)
}
pub open spec fn fqv(x: Fq) -> nat { U(x.0) }
pub open spec fn limb(x: Fq, j: int) -> nat { x.0.0.0@[j] as nat }
// sum over i < n of (low j limbs of a_i) * b_i
pub open spec fn dot_lo(a: Seq<Fq>, b: Seq<Fq>, n: int, j: int) -> nat decreases n {
    if n <= 0 { 0 } else { dot_lo(a, b, n - 1, j) + pre(a[n - 1].0.0.0@, j) * fqv(b[n - 1]) }
}
// sum over i < n of (limb j of a_i) * b_i
pub open spec fn dot_limb(a: Seq<Fq>, b: Seq<Fq>, n: int, j: int) -> nat decreases n {
    if n <= 0 { 0 } else { dot_limb(a, b, n - 1, j) + limb(a[n - 1], j) * fqv(b[n - 1]) }
}
pub open spec fn dot(a: Seq<Fq>, b: Seq<Fq>, n: int) -> nat { dot_lo(a, b, n, 4) }

pub proof fn lemma_dot_step(a: Seq<Fq>, b: Seq<Fq>, n: int, j: int)
    requires 0 <= j, 0 <= n,
    ensures dot_lo(a, b, n, j + 1) == dot_lo(a, b, n, j) + pw(j) * dot_limb(a, b, n, j),
    decreases n
{
    if n > 0 {
        lemma_dot_step(a, b, n - 1, j);
        let x = a[n - 1]; let y = fqv(b[n - 1]);
        assert(pre(x.0.0.0@, j + 1) == pre(x.0.0.0@, j) + limb(x, j) * pw(j));
        assert((pre(x.0.0.0@, j) + limb(x, j) * pw(j)) * y == pre(x.0.0.0@, j) * y + pw(j) * (limb(x, j) * y)) by(nonlinear_arith);
        assert(pw(j) * (dot_limb(a, b, n - 1, j) + limb(x, j) * y) == pw(j) * dot_limb(a, b, n - 1, j) + pw(j) * (limb(x, j) * y)) by(nonlinear_arith);
    } else {
        assert(pw(j) * 0 == 0);
    }
}
pub proof fn lemma_dot_lo_bound(a: Seq<Fq>, b: Seq<Fq>, n: int, j: int, q: nat)
    requires 0 <= j, 0 <= n, forall|i: int| 0 <= i < n ==> fqv(#[trigger] b[i]) < q,
    ensures dot_lo(a, b, n, j) <= n * (pw(j) * q),
    decreases n
{
    if n > 0 {
        lemma_dot_lo_bound(a, b, n - 1, j, q);
        lemma_pre_bound(a[n - 1].0.0.0@, j);
        assert(pre(a[n - 1].0.0.0@, j) * fqv(b[n - 1]) <= pw(j) * q) by(nonlinear_arith)
            requires pre(a[n - 1].0.0.0@, j) < pw(j), fqv(b[n - 1]) < q;
        assert((n - 1) * (pw(j) * q) + pw(j) * q == n * (pw(j) * q)) by(nonlinear_arith);
    } else {
        assert(0 * (pw(j) * q) == 0);
    }
}
pub proof fn lemma_dot_limb_bound(a: Seq<Fq>, b: Seq<Fq>, n: int, j: int, q: nat)
    requires 0 <= n, forall|i: int| 0 <= i < n ==> fqv(#[trigger] b[i]) < q,
    ensures dot_limb(a, b, n, j) <= n * (B() * q),
    decreases n
{
    if n > 0 {
        lemma_dot_limb_bound(a, b, n - 1, j, q);
        assert(limb(a[n - 1], j) * fqv(b[n - 1]) <= B() * q) by(nonlinear_arith)
            requires limb(a[n - 1], j) < B(), fqv(b[n - 1]) < q;
        assert((n - 1) * (B() * q) + B() * q == n * (B() * q)) by(nonlinear_arith);
    } else {
        assert(0 * (B() * q) == 0);
    }
}

//@BEGIN adc
pub const fn adc(a: u64, b: u64, carry: u64) -> (res: (u64, u64))
    ensures res.0 as nat + res.1 as nat * B() == a as nat + b as nat + carry as nat,
            res.0 as nat == (a as nat + b as nat + carry as nat) % B(), res.1 as nat == (a as nat + b as nat + carry as nat) / B(),
{
let ret = (a as u128) + (b as u128) + (carry as u128);
proof { lemma_split(ret);
    lemma_fundamental_div_mod_converse(ret as int, B() as int, ((ret >> 64) as u64) as int, (ret as u64) as int); }
(#[verifier::truncate] (ret as u64), #[verifier::truncate] ((ret >> 64) as u64))
}
//@END
//@BEGIN mac
pub const fn mac(a: u64, b: u64, c: u64, carry: u64) -> (res: (u64, u64))
    ensures res.0 as nat + res.1 as nat * B() == a as nat + b as nat * c as nat + carry as nat,
            res.0 as nat == (a as nat + b as nat * c as nat + carry as nat) % B(), res.1 as nat == (a as nat + b as nat * c as nat + carry as nat) / B(),
{
proof { lemma_mulbound(b, c); }
let ret = (a as u128) + ((b as u128) * (c as u128)) + (carry as u128);
proof { lemma_split(ret);
    lemma_fundamental_div_mod_converse(ret as int, B() as int, ((ret >> 64) as u64) as int, (ret as u64) as int); }
(#[verifier::truncate] (ret as u64), #[verifier::truncate] ((ret >> 64) as u64))
}
//@END

impl U256 {
//@BEGIN add_carry
pub fn add_carry(&mut self, modulo: &U256)
    requires U(*modulo) > 0, U(*modulo) <= pw(4),
    ensures U(*final(self)) as int == (U(*old(self)) % U(*modulo)) as int + pw(4) as int - U(*modulo) as int,
{
let ghost mut cnt: nat = 0;
proof { assert(cnt * U(*modulo) == 0) by(nonlinear_arith) requires cnt == 0; }
while !self.0.sub_with_borrow(&modulo.0)
    invariant U(*modulo) > 0, U(*self) + cnt * U(*modulo) == U(*old(self)),
    decreases U(*self),
{
proof {
    cnt = cnt + 1;
    assert(cnt * U(*modulo) == (cnt - 1) * U(*modulo) + U(*modulo)) by(nonlinear_arith);
}
}
proof {
    // the last subtraction borrowed: prev < m and self == prev - m + 2^256 ; prev == old - cnt*m == old % m
    let prev: int = U(*self) as int + U(*modulo) as int - pw(4) as int;
    assert(0 <= prev < U(*modulo));
    assert(U(*old(self)) as int == cnt as int * U(*modulo) as int + prev);
    lemma_fundamental_div_mod_converse(U(*old(self)) as int, U(*modulo) as int, cnt as int, prev);
}
}
//@END
}

pub proof fn lemma_pw_values()
    ensures pw(0) == 1, pw(1) == 0x1_0000_0000_0000_0000nat, pw(2) == 0x1_0000_0000_0000_0000_0000_0000_0000_0000nat,
            pw(3) == 0x1_0000_0000_0000_0000_0000_0000_0000_0000_0000_0000_0000_0000nat,
            pw(4) == 0x1_0000_0000_0000_0000_0000_0000_0000_0000_0000_0000_0000_0000_0000_0000_0000_0000nat,
            pw(5) == 0x1_0000_0000_0000_0000_0000_0000_0000_0000_0000_0000_0000_0000_0000_0000_0000_0000_0000_0000_0000_0000nat,
            pw(6) == 0x1_0000_0000_0000_0000_0000_0000_0000_0000_0000_0000_0000_0000_0000_0000_0000_0000_0000_0000_0000_0000_0000_0000_0000_0000nat,
{
    assert(pw(0) == 1 && pw(1) == 0x1_0000_0000_0000_0000nat && pw(2) == 0x1_0000_0000_0000_0000_0000_0000_0000_0000nat
        && pw(3) == 0x1_0000_0000_0000_0000_0000_0000_0000_0000_0000_0000_0000_0000nat
        && pw(4) == 0x1_0000_0000_0000_0000_0000_0000_0000_0000_0000_0000_0000_0000_0000_0000_0000_0000nat
        && pw(5) == 0x1_0000_0000_0000_0000_0000_0000_0000_0000_0000_0000_0000_0000_0000_0000_0000_0000_0000_0000_0000_0000nat
        && pw(6) == 0x1_0000_0000_0000_0000_0000_0000_0000_0000_0000_0000_0000_0000_0000_0000_0000_0000_0000_0000_0000_0000_0000_0000_0000_0000nat) by(compute_only);
}
// one accumulation row:  t' = t + d * E  over six limbs (linear in the limb products once the powers of B are constants)
pub proof fn lemma_row(t: (u64, u64, u64, u64, u64, u64), n: (u64, u64, u64, u64, u64, u64), d: u64, e: Seq<u64>, c0: u64, c1: u64, c2: u64, c3: u64, c4: u64, c5: u64)
    requires e.len() == 4,
        n.0 as nat + c0 as nat * B() == t.0 as nat + d as nat * e[0] as nat,
        n.1 as nat + c1 as nat * B() == t.1 as nat + d as nat * e[1] as nat + c0 as nat,
        n.2 as nat + c2 as nat * B() == t.2 as nat + d as nat * e[2] as nat + c1 as nat,
        n.3 as nat + c3 as nat * B() == t.3 as nat + d as nat * e[3] as nat + c2 as nat,
        n.4 as nat + c4 as nat * B() == t.4 as nat + c3 as nat,
        n.5 as nat + c5 as nat * B() == t.5 as nat + c4 as nat,
    ensures val6(n) + c5 as nat * pw(6) == val6(t) + d as nat * pre(e, 4),
{
    lemma_pw_values();
    let (b1, b2, b3, b4, b5, b6) = (pw(1), pw(2), pw(3), pw(4), pw(5), pw(6));
    let dn = d as int; let (e0, e1, e2, e3) = (e[0] as int, e[1] as int, e[2] as int, e[3] as int);
    let p0 = dn * e0; let p1 = dn * e1; let p2 = dn * e2; let p3 = dn * e3;
    // d * pre(e, 4) = p0 + p1 b1 + p2 b2 + p3 b3   (distributivity, step by step)
    assert(pre(e, 4) as int == e0 + e1 * b1 as int + e2 * b2 as int + e3 * b3 as int) by {
        reveal_with_fuel(pre, 5);
        assert(e[0] as nat * pw(0) == e[0] as nat);
    }
    lemma_mul_is_distributive_add(dn, e0 + e1 * b1 as int + e2 * b2 as int, e3 * b3 as int);
    lemma_mul_is_distributive_add(dn, e0 + e1 * b1 as int, e2 * b2 as int);
    lemma_mul_is_distributive_add(dn, e0, e1 * b1 as int);
    lemma_mul_is_associative(dn, e1, b1 as int);
    lemma_mul_is_associative(dn, e2, b2 as int);
    lemma_mul_is_associative(dn, e3, b3 as int);
    assert(dn * pre(e, 4) as int == p0 + p1 * b1 as int + p2 * b2 as int + p3 * b3 as int);
    // the telescoping sum is linear in (n, t, c, p) once the powers of B are literals; isolated query
    let (n0, n1, n2, n3, n4, n5) = (n.0 as int, n.1 as int, n.2 as int, n.3 as int, n.4 as int, n.5 as int);
    let (t0, t1, t2, t3, t4, t5) = (t.0 as int, t.1 as int, t.2 as int, t.3 as int, t.4 as int, t.5 as int);
    let (k0, k1, k2, k3, k4, k5) = (c0 as int, c1 as int, c2 as int, c3 as int, c4 as int, c5 as int);
    let (a1, a2, a3, a4, a5, a6) = (b1 as int, b2 as int, b3 as int, b4 as int, b5 as int, b6 as int);
    assert(n0 + n1 * a1 + n2 * a2 + n3 * a3 + n4 * a4 + n5 * a5 + k5 * a6
        == t0 + t1 * a1 + t2 * a2 + t3 * a3 + t4 * a4 + t5 * a5 + (p0 + p1 * a1 + p2 * a2 + p3 * a3)) by(nonlinear_arith)
        requires
            n0 + k0 * a1 == t0 + p0,
            n1 + k1 * a1 == t1 + p1 + k0,
            n2 + k2 * a1 == t2 + p2 + k1,
            n3 + k3 * a1 == t3 + p3 + k2,
            n4 + k4 * a1 == t4 + k3,
            n5 + k5 * a1 == t5 + k4,
            a1 == 0x1_0000_0000_0000_0000int, a2 == 0x1_0000_0000_0000_0000_0000_0000_0000_0000int,
            a3 == 0x1_0000_0000_0000_0000_0000_0000_0000_0000_0000_0000_0000_0000int,
            a4 == 0x1_0000_0000_0000_0000_0000_0000_0000_0000_0000_0000_0000_0000_0000_0000_0000_0000int,
            a5 == 0x1_0000_0000_0000_0000_0000_0000_0000_0000_0000_0000_0000_0000_0000_0000_0000_0000_0000_0000_0000_0000int,
            a6 == 0x1_0000_0000_0000_0000_0000_0000_0000_0000_0000_0000_0000_0000_0000_0000_0000_0000_0000_0000_0000_0000_0000_0000_0000_0000int;
    assert(val6(n) as int == n0 + n1 * a1 + n2 * a2 + n3 * a3 + n4 * a4 + n5 * a5);
    assert(val6(t) as int == t0 + t1 * a1 + t2 * a2 + t3 * a3 + t4 * a4 + t5 * a5);
}

// one reduction row:  B * val5(r) + c5 * B^6 == val6(t) + k * m   when the low limb cancels
pub proof fn lemma_red_row(t: (u64, u64, u64, u64, u64, u64), r: (u64, u64, u64, u64, u64), k: u64, m: Seq<u64>, c0: u64, c1: u64, c2: u64, c3: u64, c4: u64, c5: u64)
    requires m.len() == 4,
        0 + c0 as nat * B() == t.0 as nat + k as nat * m[0] as nat,
        r.0 as nat + c1 as nat * B() == t.1 as nat + k as nat * m[1] as nat + c0 as nat,
        r.1 as nat + c2 as nat * B() == t.2 as nat + k as nat * m[2] as nat + c1 as nat,
        r.2 as nat + c3 as nat * B() == t.3 as nat + k as nat * m[3] as nat + c2 as nat,
        r.3 as nat + c4 as nat * B() == t.4 as nat + c3 as nat,
        r.4 as nat + c5 as nat * B() == t.5 as nat + c4 as nat,
    ensures B() * val5(r) + c5 as nat * pw(6) == val6(t) + k as nat * pre(m, 4),
{
    let n = (0u64, r.0, r.1, r.2, r.3, r.4);
    lemma_row(t, n, k, m, c0, c1, c2, c3, c4, c5);
    lemma_pw_values();
    assert(val6(n) == B() * val5(r));
}

pub proof fn lemma_u_bound(uv: nat, j: int, dl: nat, kq: nat, q: nat, n: int)
    requires 0 <= j, 0 <= n, uv * pw(j) == dl + kq * q, kq < pw(j), dl <= n * (pw(j) * q), q > 0,
    ensures uv < (n + 1) * q,
{
    let p = pw(j);
    assert(p > 0) by { lemma_pw_pos(j); }
    assert(kq * q < p * q) by(nonlinear_arith) requires kq < p, q > 0;
    assert(uv * p < (n + 1) * q * p) by(nonlinear_arith) requires uv * p == dl + kq * q, dl <= n * (p * q), kq * q < p * q;
    assert(uv < (n + 1) * q) by(nonlinear_arith) requires uv * p < (n + 1) * q * p, p > 0;
}
pub proof fn lemma_pw_pos(j: int)
    ensures pw(j) > 0,
    decreases j
{
    if j > 0 { lemma_pw_pos(j - 1); assert(B() * pw(j - 1) > 0) by(nonlinear_arith) requires pw(j - 1) > 0; }
}


pub proof fn lemma_consts()
    ensures QN() > 0, QN() < pw(4), 2 * QN() > pw(4), mont_inv_ok(FQ_C[0], FQ_INV_C), U(U256(B256(FQ_C))) == QN(),
{
    lemma_consts_gen();
    reveal_with_fuel(pre, 5); reveal_with_fuel(pw, 5);
    lemma_pre_bound(FQ_C@, 4);
    let s = FQ_C@;
    // the modulus is odd and its top limb has the top bit set: 2^255 < q < 2^256
    assert(s[3] >= 0x8000_0000_0000_0000u64);
    assert(pre(s, 4) >= s[3] as nat * pw(3));
    assert(pw(4) == B() * pw(3));
    assert(pw(3) > 0) by { lemma_pw_pos(3); }
    assert(2 * (s[3] as nat * pw(3)) >= B() * pw(3)) by(nonlinear_arith) requires s[3] as nat >= 0x8000_0000_0000_0000nat, B() == 0x1_0000_0000_0000_0000nat;
    assert(s[0] as nat % 2 == 1);
    assert(pre(s, 4) >= s[3] as nat * pw(3) + s[0] as nat);
    assert(s[0] as nat >= 1);
}
pub proof fn lemma_dot_lo_zero(a: Seq<Fq>, b: Seq<Fq>, n: int)
    requires 0 <= n,
    ensures dot_lo(a, b, n, 0) == 0,
    decreases n
{
    if n > 0 { lemma_dot_lo_zero(a, b, n - 1); assert(pre(a[n - 1].0.0.0@, 0) * fqv(b[n - 1]) == 0) by(nonlinear_arith) requires pre(a[n - 1].0.0.0@, 0) == 0; }
}
// the accumulated row stays below B^6, so the carry discarded by `let (t5, _) = adc(..)` is zero
pub proof fn lemma_row_small(vt: nat, d: nat, ev: nat, vu: nat, dl: nat, q: nat, n: int, i: int, vn: nat, c5: nat)
    requires vt == vu + dl, vu < (n + 1) * q, dl <= i * (B() * q), 0 <= i < n <= 8, d < B(), ev < q, q < pw(4),
             vn + c5 * pw(6) == vt + d * ev, vn < pw(6),
    ensures c5 == 0,
{
    reveal_with_fuel(pw, 7);
    let b = B();
    assert(d * ev <= b * q) by(nonlinear_arith) requires d < b, ev < q;
    assert(vt + d * ev < 9 * q + 8 * (b * q) + 1) by(nonlinear_arith)
        requires vt == vu + dl, vu < (n + 1) * q, dl <= i * (b * q), 0 <= i < n <= 8, d * ev <= b * q;
    assert(9 * q + 8 * (b * q) + 1 < pw(6)) by(nonlinear_arith)
        requires q < pw(4), pw(6) == b * (b * pw(4)), b == 0x1_0000_0000_0000_0000nat;
    assert(c5 == 0) by(nonlinear_arith) requires vn + c5 * pw(6) < pw(6);
}
pub proof fn lemma_red_small(vt: nat, k: nat, q: nat, vu: nat, dl: nat, n: int, vr: nat, c5: nat)
    requires vt == vu + dl, vu < (n + 1) * q, dl <= n * (B() * q), 0 <= n <= 8, k < B(), q < pw(4),
             B() * vr + c5 * pw(6) == vt + k * q, vr < pw(5),
    ensures c5 == 0,
{
    reveal_with_fuel(pw, 7);
    let b = B();
    assert(k * q <= b * q) by(nonlinear_arith) requires k < b;
    assert(vt + k * q < 9 * q + 9 * (b * q) + 1) by(nonlinear_arith)
        requires vt == vu + dl, vu < (n + 1) * q, dl <= n * (b * q), 0 <= n <= 8, k * q <= b * q;
    assert(9 * q + 9 * (b * q) + 1 < pw(6)) by(nonlinear_arith)
        requires q < pw(4), pw(6) == b * (b * pw(4)), b == 0x1_0000_0000_0000_0000nat;
    assert(c5 == 0) by(nonlinear_arith) requires b * vr + c5 * pw(6) < pw(6);
}
pub proof fn lemma_outer_step(vu: nat, vr: nat, vt: nat, k: nat, q: nat, j: int, dlo: nat, dlimb: nat, kq: nat)
    requires 0 <= j, vu * pw(j) == dlo + kq * q, kq < pw(j), vt == vu + dlimb, B() * vr == vt + k * q, k < B(),
    ensures vr * pw(j + 1) == (dlo + pw(j) * dlimb) + (kq + k * pw(j)) * q, kq + k * pw(j) < pw(j + 1),
{
    let p = pw(j);
    assert(pw(j + 1) == B() * p);
    assert(vr * (B() * p) == (B() * vr) * p) by(nonlinear_arith);
    assert((vu + dlimb + k * q) * p == vu * p + p * dlimb + (k * p) * q) by(nonlinear_arith);
    assert((kq + k * p) * q == kq * q + (k * p) * q) by(nonlinear_arith);
    assert(kq + k * p < B() * p) by(nonlinear_arith) requires kq < p, k < B();
}
pub proof fn lemma_val6_bound(t: (u64, u64, u64, u64, u64, u64))
    ensures val6(t) < pw(6),
{ lemma_pw_values(); }
pub proof fn lemma_val5_bound(t: (u64, u64, u64, u64, u64))
    ensures val5(t) < pw(5),
{ lemma_pw_values(); }
pub proof fn lemma_val5_split(u: (u64, u64, u64, u64, u64), lo: Seq<u64>)
    requires lo.len() == 4, lo[0] == u.0, lo[1] == u.1, lo[2] == u.2, lo[3] == u.3,
    ensures val5(u) == pre(lo, 4) + u.4 as nat * pw(4),
{
    reveal_with_fuel(pre, 5); reveal_with_fuel(pw, 5);
    assert(lo[0] as nat * pw(0) == lo[0] as nat) by(nonlinear_arith) requires pw(0) == 1;
}
pub proof fn lemma_ac_mod(x: nat, q: nat, r: nat)
    requires q > 0, r >= q,
    ensures ((x % q) + r - q) as int % (q as int) == ((x + r) as int) % (q as int),
{
    let qi = q as int;
    lemma_fundamental_div_mod(x as int, qi);
    let d = (x as int) / qi;
    assert((x + r) as int == (d + 1) * qi + ((x % q) as int + r as int - qi)) by(nonlinear_arith)
        requires x as int == qi * d + (x as int) % qi, (x % q) as int == (x as int) % qi;
    lemma_mod_multiples_vanish(d + 1, (x % q) as int + r as int - qi, qi);
}

impl Fq {
//@BEGIN sum_of_products
pub fn sum_of_products<const T :
usize>(a: &[Fq; T], b: &[Fq; T]) -> (res: Fq)
    requires T <= 8,
        forall|i: int| 0 <= i < T ==> fqv(#[trigger] a@[i]) < QN(),
        forall|i: int| 0 <= i < T ==> fqv(#[trigger] b@[i]) < QN(),
    ensures fqv(res) < QN(),
        (fqv(res) * pw(4)) % QN() == dot(a@, b@, T as int) % QN(),
{
proof { lemma_consts(); }
let ghost mut kq: nat = 0;
proof { lemma_pw_values(); assert(val5((0u64, 0u64, 0u64, 0u64, 0u64)) == 0); assert(0 * pw(0) == 0); assert(kq * QN() == 0) by(nonlinear_arith) requires kq == 0;
        lemma_dot_lo_zero(a@, b@, T as int); }
let mut acc2_ = (0, 0, 0, 0, 0);
for j in 0..4
    invariant
        T <= 8, QN() > 0, mont_inv_ok(FQ_C[0], FQ_INV_C), 2 * QN() > pw(4), QN() < pw(4),
        forall|i: int| 0 <= i < T ==> fqv(#[trigger] a@[i]) < QN(),
        forall|i: int| 0 <= i < T ==> fqv(#[trigger] b@[i]) < QN(),
        val5(acc2_) * pw(j as int) == dot_lo(a@, b@, T as int, j as int) + kq * QN(),
        kq < pw(j as int),
{
let (u0, u1, u2, u3, u4) = acc2_;
let ghost uu = acc2_;
proof {
    lemma_dot_lo_bound(a@, b@, T as int, j as int, QN());
    lemma_u_bound(val5(uu), j as int, dot_lo(a@, b@, T as int, j as int), kq, QN(), T as int);
    lemma_dot_limb_bound(a@, b@, T as int, j as int, QN());
}
acc2_ =
{
let mut acc1_ = (u0, u1, u2, u3, u4, 0);
proof { reveal_with_fuel(pw, 7); assert(val6(acc1_) == val5(uu)); }
for i in 0..T
    invariant
        T <= 8, 0 <= j < 4, QN() < pw(4),
        forall|i: int| 0 <= i < T ==> fqv(#[trigger] a@[i]) < QN(),
        forall|i: int| 0 <= i < T ==> fqv(#[trigger] b@[i]) < QN(),
        val6(acc1_) == val5(uu) + dot_limb(a@, b@, i as int, j as int),
        val5(uu) < (T + 1) * QN(),
{
let (t0, t1, t2, t3, t4, t5) = acc1_;
let ghost tt = acc1_;
acc1_ =
{
let d = a[i].0.0.0[j];
let e = &b[i].0.0.0;
let (t0, carry) = mac(t0, d, e[0], 0);
let ghost c0 = carry;
let (t1, carry) = mac(t1, d, e[1], carry);
let ghost c1 = carry;
let (t2, carry) = mac(t2, d, e[2], carry);
let ghost c2 = carry;
let (t3, carry) = mac(t3, d, e[3], carry);
let ghost c3 = carry;
let (t4, carry) = adc(t4, 0, carry);
let ghost c4 = carry;
let (t5, _) = adc(t5, 0, carry);
proof {
    // the discarded carry is zero: the exact sum is below B^6
    let c5n: nat = (tt.5 as nat + c4 as nat) / B();
    lemma_fundamental_div_mod((tt.5 as nat + c4 as nat) as int, B() as int);
    assert(c5n <= 1) by(nonlinear_arith) requires c5n * B() <= tt.5 as nat + c4 as nat, (tt.5 as nat) < B(), (c4 as nat) < B();
    let c5: u64 = c5n as u64;
    lemma_row(tt, (t0, t1, t2, t3, t4, t5), d, e@, c0, c1, c2, c3, c4, c5);
    lemma_val6_bound((t0, t1, t2, t3, t4, t5));
    lemma_dot_limb_bound(a@, b@, i as int, j as int, QN());
    lemma_row_small(val6(tt), d as nat, pre(e@, 4), val5(uu), dot_limb(a@, b@, i as int, j as int), QN(), T as int, i as int, val6((t0, t1, t2, t3, t4, t5)), c5 as nat);
    assert(limb(a@[i as int], j as int) == d as nat);
    assert(fqv(b@[i as int]) == pre(e@, 4));
}
(t0, t1, t2, t3, t4, t5)
};
}
let (t0, t1, t2, t3, t4, t5) = acc1_;
let ghost tt = acc1_;
let k = t0.wrapping_mul(FQ_INV_C);
let m = &FQ_C;
let (_, carry) = mac(t0, k, m[0], 0);
let ghost c0 = carry;
let (r1, carry) = mac(t1, k, m[1], carry);
let ghost c1 = carry;
let (r2, carry) = mac(t2, k, m[2], carry);
let ghost c2 = carry;
let (r3, carry) = mac(t3, k, m[3], carry);
let ghost c3 = carry;
let (r4, carry) = adc(t4, 0, carry);
let ghost c4 = carry;
let (r5, _) = adc(t5, 0, carry);
proof {
    lemma_low_zero(t0, k, m[0], FQ_INV_C);
    // the discarded low word is (t0 + k*m0) mod B = 0
    let c5n: nat = (t5 as nat + c4 as nat) / B();
    lemma_fundamental_div_mod((t5 as nat + c4 as nat) as int, B() as int);
    lemma_fundamental_div_mod((t0 as nat + k as nat * m[0] as nat) as int, B() as int);
    assert(c5n <= 1) by(nonlinear_arith) requires c5n * B() <= t5 as nat + c4 as nat, (t5 as nat) < B(), (c4 as nat) < B();
    let c5: u64 = c5n as u64;
    lemma_red_row(tt, (r1, r2, r3, r4, r5), k, m@, c0, c1, c2, c3, c4, c5);
    lemma_val5_bound((r1, r2, r3, r4, r5));
    lemma_dot_step(a@, b@, T as int, j as int);
    lemma_red_small(val6(tt), k as nat, QN(), val5(uu), dot_limb(a@, b@, T as int, j as int), T as int, val5((r1, r2, r3, r4, r5)), c5 as nat);
    lemma_outer_step(val5(uu), val5((r1, r2, r3, r4, r5)), val6(tt), k as nat, QN(), j as int, dot_lo(a@, b@, T as int, j as int), dot_limb(a@, b@, T as int, j as int), kq);
    kq = kq + k as nat * pw(j as int);
}
(r1, r2, r3, r4, r5)
};
}
let (u0, u1, u2, u3, u4) = acc2_;
let ghost uu = acc2_;
let mut r = U256(B256([u0, u1, u2, u3]));
let ghost r0 = r;
proof {
    lemma_dot_lo_bound(a@, b@, T as int, 4, QN());
    lemma_u_bound(val5(uu), 4, dot_lo(a@, b@, T as int, 4), kq, QN(), T as int);
    lemma_val5_split(uu, r.0.0@);
    assert(0 * pw(4) == 0);
}
if u4 != 0
{
for _i in 0..u4
    invariant QN() > 0, QN() <= pw(4), U(U256(B256(FQ_C))) == QN(),
        U(r) % QN() == (U(r0) + _i as nat * pw(4)) % QN(),
{
let ghost rp = r;
r.add_carry(&U256(B256(FQ_C)));
proof {
    lemma_ac_mod(U(rp), QN(), pw(4));
    lemma_add_mod_noop(U(rp) as int, pw(4) as int, QN() as int);
    lemma_add_mod_noop((U(r0) + _i as nat * pw(4)) as int, pw(4) as int, QN() as int);
    assert((_i + 1) as nat * pw(4) == _i as nat * pw(4) + pw(4)) by(nonlinear_arith);
}
}
}
proof { lemma_pre_bound(r.0.0@, 4); }
let ghost rf = r;
r.subtract_modulus_with_carry(&U256(B256(FQ_C)), false);
proof {
    // r == rf - (0 or q)  ==>  r = rf (mod q) = val5(uu) (mod q);  val5(uu) * R == DOT + kq * q
    let q = QN() as int;
    assert(U(rf) % QN() == val5(uu) % QN());
    if U(rf) >= QN() {
        lemma_mod_multiples_vanish(-1, U(rf) as int, q);
        assert(U(r) as int == -1 * q + U(rf) as int);
    }
    assert(U(r) % QN() == val5(uu) % QN());
    lemma_mul_mod_noop_left(U(r) as int, pw(4) as int, q);
    lemma_mul_mod_noop_left(val5(uu) as int, pw(4) as int, q);
    lemma_mod_multiples_vanish(kq as int, dot_lo(a@, b@, T as int, 4) as int, q);
    assert((val5(uu) * pw(4)) as int == kq as int * q + dot_lo(a@, b@, T as int, 4) as int) by(nonlinear_arith)
        requires val5(uu) * pw(4) == dot_lo(a@, b@, T as int, 4) + kq * QN(), q == QN();
}
Fq(r)
}
//@END
}
// vacuity guard: the preconditions of sum_of_products are satisfiable
pub fn witness_sop_precondition()
{
    let z = Fq(U256(B256([0, 0, 0, 0])));
    let o = Fq(U256(B256([1, 0, 0, 0])));
    let a = [z, o];
    let b = [o, o];
    proof {
        lemma_consts();
        reveal_with_fuel(pre, 5); reveal_with_fuel(pw, 5);
        assert(pre(z.0.0.0@, 4) == 0) by { assert(0 * pw(0) == 0 && 0 * pw(1) == 0 && 0 * pw(2) == 0 && 0 * pw(3) == 0); }
        assert(pre(o.0.0.0@, 4) == 1) by { assert(1nat * pw(0) == 1 && 0 * pw(1) == 0 && 0 * pw(2) == 0 && 0 * pw(3) == 0); assert(pre(o.0.0.0@, 1) == 1nat * pw(0)); }
        assert(forall|i: int| 0 <= i < 2 ==> fqv(#[trigger] a@[i]) < QN());
        assert(forall|i: int| 0 <= i < 2 ==> fqv(#[trigger] b@[i]) < QN());
    }
    let _r = Fq::sum_of_products(&a, &b);
}
} // verus!
