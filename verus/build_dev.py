#!/usr/bin/env python3
"""authoring: mark dev/<unit>_dev.rs against the current extracted text -> annot/<unit>.rs, then run the unit"""
import sys, os, json, tempfile
HERE = os.path.dirname(os.path.abspath(__file__))
sys.path.insert(0, HERE)
import extract, mark_annot, run
unit = sys.argv[1]
exp = open(sys.argv[2] if len(sys.argv) > 2 else '/tmp/scr/expanded.rs').read()
curs = {}
for marker, header, rw in run.UNITS[unit][1]:
    curs[marker] = extract.tidy(rw(extract.find_fn(exp, header), []))
dev = open(os.path.join(HERE, 'dev', unit + '_dev.rs')).read()
open(os.path.join(HERE, 'annot', run.UNITS[unit][0]), 'w').write(mark_annot.mark_file(dev, curs))
wd = tempfile.mkdtemp(prefix='sm9v_dev_')
r = run.run_unit(unit, exp, wd)
print(json.dumps({k: v for k, v in r.items() if k != 'notes'}, indent=1))
print('file:', os.path.join(wd, unit + '_full.rs'))
