// Annotated text of U256::mul_without_cond_subtract (src/u256.rs).  Every line that does NOT end with the marker `//@`
// is, token for token, the output of extract.py on the compiler-expanded source of the current tree (checked on every
// run by `erase`); lines ending with `//@` are specification / proof text only.
verus! { //@
pub open spec fn mont_inv_ok(m0: u64, inv: u64) -> bool { (m0 as nat * inv as nat + 1) % B() == 0 } //@

pub proof fn lemma_low_zero(ri: u64, k: u64, m0: u64, inv: u64) //@
    requires mont_inv_ok(m0, inv), k as nat == (ri as nat * inv as nat) % B(), //@
    ensures (ri as nat + k as nat * m0 as nat) % B() == 0, //@
{ //@
    let b = B() as int; let x = ri as int; let v = inv as int; let m = m0 as int; //@
    lemma_mul_mod_noop_left(x * v, m, b); //@
    assert(((x * v) % b) * m % b == (x * v * m) % b); //@
    assert(x + x * v * m == x * (m * v + 1)) by(nonlinear_arith); //@
    lemma_mul_mod_noop_right(x, m * v + 1, b); //@
    assert((x * ((m * v + 1) % b)) % b == (x * (m * v + 1)) % b); //@
    assert((m * v + 1) % b == 0); //@
    assert(x * 0 == 0); //@
    assert((x + x * v * m) % b == 0); //@
    lemma_add_mod_noop(x, x * v * m, b); //@
    lemma_add_mod_noop(x, (k as int) * m, b); //@
    assert((k as int) * m % b == (x * v * m) % b); //@
} //@

pub proof fn lemma_reduce_round(r0: Seq<u64>, r_mid: Seq<u64>, r1: Seq<u64>, t: Seq<u64>, m: Seq<u64>, i: int, k: u64, carry: u64, c20: u64, c21: u64, kold: nat) //@
    requires 0 <= i < 4, r0.len() == 8, r_mid.len() == 8, r1.len() == 8, //@
        (pre(r0, 8) - pre(r0, i)) + c20 as nat * pw(4 + i) == pre(t, 8) + kold * pre(m, 4), //@
        kold < pw(i), //@
        (pre(r_mid, i + 4) - pre(r_mid, i + 1)) + carry as nat * pw(i + 4) //@
            == (pre(r0, i + 4) - pre(r0, i)) + k as nat * pre(m, 4) * pw(i), //@
        forall|x: int| i + 4 <= x < 8 ==> #[trigger] r_mid[x] == r0[x], //@
        forall|x: int| 0 <= x < 8 && x != i + 4 ==> #[trigger] r1[x] == r_mid[x], //@
        r_mid[i + 4] as nat + carry as nat + c20 as nat == c21 as nat * B() + r1[i + 4] as nat, //@
    ensures (pre(r1, 8) - pre(r1, i + 1)) + c21 as nat * pw(5 + i) == pre(t, 8) + (kold + k as nat * pw(i)) * pre(m, 4), //@
            kold + k as nat * pw(i) < pw(i + 1) //@
{ //@
    lemma_pre_range(r1, r_mid, i + 1, i + 4); //@
    lemma_pre_range(r1, r_mid, i + 5, 8); //@
    lemma_pre_range(r_mid, r0, i + 5, 8); //@
    assert(pre(r1, i + 5) == pre(r1, i + 4) + r1[i + 4] as nat * pw(i + 4)); //@
    assert(pre(r0, i + 5) == pre(r0, i + 4) + r0[i + 4] as nat * pw(i + 4)); //@
    assert(pw(5 + i) == B() * pw(4 + i)); //@
    let P = pw(4 + i); //@
    assert(r1[i + 4] as nat * P + c21 as nat * (B() * P) == (r0[i + 4] as nat + carry as nat + c20 as nat) * P) by(nonlinear_arith) //@
        requires r0[i + 4] as nat + carry as nat + c20 as nat == c21 as nat * B() + r1[i + 4] as nat; //@
    assert((r0[i + 4] as nat + carry as nat + c20 as nat) * P == r0[i + 4] as nat * P + carry as nat * P + c20 as nat * P) by(nonlinear_arith); //@
    assert((kold + k as nat * pw(i)) * pre(m, 4) == kold * pre(m, 4) + k as nat * pre(m, 4) * pw(i)) by(nonlinear_arith); //@
    assert(pw(i + 1) == B() * pw(i)); //@
    assert(kold + k as nat * pw(i) < B() * pw(i)) by(nonlinear_arith) //@
        requires kold < pw(i), (k as nat) < B(); //@
} //@

// postcondition of the whole function: the returned pair (carry, hi) satisfies  (hi + carry * 2^256) * 2^256 == a*b + k*m  with k < 2^256
pub open spec fn mont_rel(kq: nat, hi: U256, carry: bool, a: U256, b: U256, m: U256) -> bool { //@
    (U(hi) + (if carry { pw(4) } else { 0 })) * pw(4) == U(a) * U(b) + kq * U(m) && kq < pw(4) //@
} //@

impl U256 { //@

//@BEGIN mul_without_cond_subtract
fn mul_without_cond_subtract(self, other: &Self, modulo: &U256,
inv: u64) -> (res: (bool, Self)) //@RET (bool, Self)
    requires mont_inv_ok(modulo.0.0[0], inv), //@
    ensures exists|kq: nat| #[trigger] mont_rel(kq, res.1, res.0, self, *other, *modulo), //@
{
let mut r = MulBuffer::<4>::zeroed();
let e = &other.0.0;
let d = &self.0.0;
proof { //@
    assert(forall|k: int| 0 <= k < 8 ==> bv(r)[k] == 0); //@
    assert(pre(bv(r), 8) == 0) by { lemma_tail(bv(r), 0, 8); } //@
    assert(pre(d@, 0) * pre(e@, 4) == 0) by(nonlinear_arith) requires pre(d@, 0) == 0; //@
} //@
for i in 0..4usize
    invariant //@
        pre(bv(r), 8) == pre(d@, i as int) * pre(e@, 4), //@
        forall|k: int| i + 4 <= k < 8 ==> bv(r)[k] == 0, //@
        bv(r).len() == 8, //@
{
let di = &d[i];
let mut carry = 0;
let ghost r0 = bv(r); //@
proof { assert(d@[i as int] as nat * pw(i as int) * pre(e@, 0) == 0) by(nonlinear_arith) requires pre(e@, 0) == 0; } //@
for j in 0..4usize
    invariant //@
        0 <= i < 4, *di == d@[i as int], bv(r).len() == 8, r0.len() == 8, //@
        forall|k: int| i + 4 <= k < 8 ==> bv(r)[k] == 0, //@
        forall|k: int| i + j <= k < 8 ==> #[trigger] bv(r)[k] == r0[k], //@
        pre(bv(r), i + j) + carry as nat * pw(i + j) + (pre(r0, 8) - pre(r0, i + j)) //@
            == pre(r0, 8) + d@[i as int] as nat * pw(i as int) * pre(e@, j as int), //@
{
let ej = &e[j];
let k = i + j;
let ghost carry_old = carry; //@
let ghost r_old = r; //@
proof { lemma_mulbound(*di, *ej); lemma_bv_get(r, k as int); } //@
let w_ =
{
let tmp =
((*r.get(k)) as u128) + (*di as u128 * *ej as u128) +
(carry as u128);
proof { lemma_split(tmp); } //@
carry = #[verifier::truncate] ((tmp >> 64) as u64);
#[verifier::truncate] (tmp as u64)
};
r.set(k, w_);
proof { //@
    lemma_bv_set(r_old, r, k as int, w_); //@
    let ro = bv(r_old); //@
    assert(pre(bv(r), k as int) == pre(ro, k as int)) by { lemma_pre_ext(bv(r), ro, k as int); } //@
    assert(pre(r0, k + 1) == pre(r0, k as int) + r0[k as int] as nat * pw(k as int)); //@
    assert(pw(k + 1) == B() * pw(k as int)); //@
    assert(pw(i + j) == pw(i as int) * pw(j as int)) by { lemma_pw_add(i as int, j as int); } //@
    let P = pw(k as int); let x = ro[k as int] as nat; let m = (*di as nat) * (*ej as nat); //@
    assert(w_ as nat * P + (carry as nat) * (B() * P) == (x + m + carry_old as nat) * P) by (nonlinear_arith) //@
        requires x + m + carry_old as nat == (carry as nat) * B() + w_ as nat; //@
    assert((x + m + carry_old as nat) * P == x * P + m * P + carry_old as nat * P) by (nonlinear_arith); //@
    assert(d@[i as int] as nat * pw(i as int) * pre(e@, j + 1) == d@[i as int] as nat * pw(i as int) * pre(e@, j as int) + m * P) by (nonlinear_arith) //@
        requires pre(e@, j + 1) == pre(e@, j as int) + *ej as nat * pw(j as int), P == pw(i as int) * pw(j as int), m == (d@[i as int] as nat) * (*ej as nat); //@
}
} //@
let ghost r_old = r; //@
proof { lemma_bv_get(r, i + 4); assert(bv(r)[i + 4] == 0); } //@
r.b1[i] = carry;
proof { //@
    assert(bv(r) =~= bv(r_old).update(i + 4, carry)); //@
    let ro = bv(r_old); //@
    lemma_pre_ext(bv(r), ro, i + 4); //@
    lemma_tail(bv(r), i + 5, 8); //@
    lemma_tail(r0, i + 4, 8); //@
    lemma_tail(ro, i + 4, 8); //@
    assert(pre(bv(r), i + 5) == pre(bv(r), i + 4) + carry as nat * pw(i + 4)); //@
    assert(pre(d@, i + 1) * pre(e@, 4) == pre(d@, i as int) * pre(e@, 4) + d@[i as int] as nat * pw(i as int) * pre(e@, 4)) by (nonlinear_arith) //@
        requires pre(d@, i + 1) == pre(d@, i as int) + d@[i as int] as nat * pw(i as int); //@
}
} //@
let mut carry2 = 0;
let m = &modulo.0.0;
let ghost t_in = bv(r); //@
let ghost mut kacc: nat = 0; //@
proof { assert(0 * pre(m@, 4) == 0); reveal_with_fuel(pre, 1); reveal_with_fuel(pw, 5); } //@
for i in 0..4usize
    invariant //@
        mont_inv_ok(m[0], inv), bv(r).len() == 8, t_in.len() == 8, //@
        (pre(bv(r), 8) - pre(bv(r), i as int)) + carry2 as nat * pw(4 + i) == pre(t_in, 8) + kacc * pre(m@, 4), //@
        kacc < pw(i as int), //@
        carry2 <= 1, //@
{
let ghost r0 = bv(r); //@
let ghost c20 = carry2; //@
proof { lemma_bv_get(r, i as int); } //@
let tmp = (*r.get(i)).wrapping_mul(inv);
let mut carry = 0;
mac_discard((*r.get(i)), tmp, m[0], &mut carry);
proof { //@
    lemma_low_zero(r0[i as int], tmp, m[0], inv); //@
    reveal_with_fuel(pre, 2); reveal_with_fuel(pw, 2); //@
    assert(m@[0] as nat * pw(0) == m@[0] as nat) by(nonlinear_arith) requires pw(0) == 1; //@
    assert(pre(m@, 1) == m@[0] as nat); //@
    assert(pw(i + 1) == B() * pw(i as int)); //@
    assert(pre(r0, i + 1) - pre(r0, i as int) == r0[i as int] as nat * pw(i as int)); //@
    assert(carry as nat * (B() * pw(i as int)) == (r0[i as int] as nat) * pw(i as int) + tmp as nat * (m@[0] as nat) * pw(i as int)) by(nonlinear_arith) //@
        requires carry as nat * B() == r0[i as int] as nat + tmp as nat * (m@[0] as nat); //@
} //@
for j in 1..4usize
    invariant //@
        0 <= i < 4, 1 <= j <= 4, bv(r).len() == 8, r0.len() == 8, //@
        forall|t: int| 0 <= t <= i ==> #[trigger] bv(r)[t] == r0[t], //@
        forall|t: int| i + j <= t < 8 ==> #[trigger] bv(r)[t] == r0[t], //@
        (pre(bv(r), i + j) - pre(bv(r), i + 1)) + carry as nat * pw(i + j) //@
            == (pre(r0, i + j) - pre(r0, i as int)) + tmp as nat * pre(m@, j as int) * pw(i as int), //@
{
let mj = &m[j];
let k = i + j;
let ghost carry_old = carry; //@
let ghost r_old = r; //@
proof { lemma_mulbound(tmp, *mj); lemma_bv_get(r, k as int); } //@
let w_ =
{
let tmp =
((*r.get(k)) as u128) + (tmp as u128 * *mj as u128) +
(carry as u128);
proof { lemma_split(tmp); } //@
carry = #[verifier::truncate] ((tmp >> 64) as u64);
#[verifier::truncate] (tmp as u64)
};
r.set(k, w_);
proof { //@
    lemma_bv_set(r_old, r, k as int, w_); //@
    let ro = bv(r_old); //@
    lemma_pre_range(bv(r), ro, i + 1, k as int); //@
    lemma_pw_add(i as int, j as int); //@
    let P = pw(k as int); let x = ro[k as int] as nat; let mm = (tmp as nat) * (m@[j as int] as nat); //@
    assert(pw(k + 1) == B() * P); //@
    assert(w_ as nat * P + (carry as nat) * (B() * P) == (x + mm + carry_old as nat) * P) by (nonlinear_arith) //@
        requires x + mm + carry_old as nat == (carry as nat) * B() + w_ as nat; //@
    assert((x + mm + carry_old as nat) * P == x * P + mm * P + carry_old as nat * P) by (nonlinear_arith); //@
    assert(tmp as nat * pre(m@, j + 1) * pw(i as int) == tmp as nat * pre(m@, j as int) * pw(i as int) + mm * P) by (nonlinear_arith) //@
        requires pre(m@, j + 1) == pre(m@, j as int) + m@[j as int] as nat * pw(j as int), P == pw(i as int) * pw(j as int), mm == (tmp as nat) * (m@[j as int] as nat); //@
}
} //@
let ghost r_mid = r; //@
proof { lemma_bv_get(r, i + 4); } //@
let w_ =
{
let tmp =
(r.b1[i] as u128) + (carry as u128) + (carry2 as u128);
proof { lemma_split(tmp); } //@
carry2 = #[verifier::truncate] ((tmp >> 64) as u64);
proof { assert(carry2 <= 1) by(bit_vector) requires carry2 == (tmp >> 64) as u64, tmp <= 0x1_ffff_ffff_ffff_fffeu128 + 1; } //@
#[verifier::truncate] (tmp as u64)
};
r.b1[i] = w_;
proof { //@
    assert(bv(r) =~= bv(r_mid).update(i + 4, w_)); //@
    kacc = kacc + tmp as nat * pw(i as int); //@
    lemma_reduce_round(r0, bv(r_mid), bv(r), t_in, m@, i as int, tmp, carry, c20, carry2, (kacc - tmp as nat * pw(i as int)) as nat); //@
}
} //@
proof { //@
    // bv(r) = lo ++ hi with lo fully cancelled:  hi * B^4 + carry2 * B^8 == T + kacc * m,  T = a * b //@
    let hi = U256(B256(r.b1)); //@
    lemma_hi_part(bv(r), r.b1@); //@
    assert(pw(8) == pw(4) * pw(4)) by { lemma_pw_add(4, 4); } //@
    assert((U(hi) + (if carry2 != 0 { pw(4) } else { 0 })) * pw(4) == U(hi) * pw(4) + carry2 as nat * (pw(4) * pw(4))) by(nonlinear_arith) //@
        requires carry2 <= 1; //@
    assert(mont_rel(kacc, hi, carry2 != 0, self, *other, *modulo)); //@
    let res_ = (carry2 != 0, U256(B256(r.b1))); //@
    assert(mont_rel(kacc, res_.1, res_.0, self, *other, *modulo)); //@
} //@
(carry2 != 0, U256(B256(r.b1)))
}
//@END



//@BEGIN subtract_modulus_with_carry
pub fn subtract_modulus_with_carry(&mut self, modulo: &U256,
carry: bool)
    requires U(*old(self)) + (if carry { pw(4) } else { 0 }) < 2 * U(*modulo), //@
    ensures U(*final(self)) < U(*modulo), //@
            U(*final(self)) as int == U(*old(self)) + (if carry { pw(4) as int } else { 0 }) //@
                - (if carry || U(*old(self)) >= U(*modulo) { U(*modulo) as int } else { 0 }), //@
{
proof { lemma_pre_bound(old(self).0.0@, 4); lemma_pre_bound(modulo.0.0@, 4); } //@
if carry || self.0.ge_(&modulo.0)
{
self.0.sub_with_borrow(&modulo.0);
proof { lemma_pre_bound(self.0.0@, 4); } //@
}
}
//@END



//@BEGIN mul
pub fn mul(&mut self, other: &U256, modulo: &U256, inv: u64)
    requires mont_inv_ok(modulo.0.0[0], inv), //@
             U(*old(self)) * U(*other) < pw(4) * U(*modulo), //@
    ensures U(*final(self)) < U(*modulo), //@
            (U(*final(self)) * pw(4)) % U(*modulo) == (U(*old(self)) * U(*other)) % U(*modulo), //@
{
let (carry, mut res) =
self.mul_without_cond_subtract(other, modulo, inv);
proof { //@
    let kq = choose|kq: nat| #[trigger] mont_rel(kq, res, carry, *old(self), *other, *modulo); //@
    lemma_mont_bound(U(res), carry, U(*old(self)), U(*other), U(*modulo), kq); //@
} //@
let ghost hi0 = res; //@
res.subtract_modulus_with_carry(modulo, carry);
proof { //@
    let kq = choose|kq: nat| #[trigger] mont_rel(kq, hi0, carry, *old(self), *other, *modulo); //@
    lemma_mont_final(U(res), U(hi0), carry, U(*old(self)), U(*other), U(*modulo), kq); //@
} //@
self.0 = res.0;
}
//@END

} //@

pub proof fn lemma_mont_bound(hi: nat, carry: bool, a: nat, b: nat, m: nat, kq: nat) //@
    requires (hi + (if carry { pw(4) } else { 0 })) * pw(4) == a * b + kq * m, kq < pw(4), a * b < pw(4) * m, //@
    ensures hi + (if carry { pw(4) } else { 0 }) < 2 * m, //@
{ //@
    let t = hi + (if carry { pw(4) } else { 0 }); let r = pw(4); //@
    assert(kq * m <= r * m) by(nonlinear_arith) requires kq < r; //@
    assert(t * r < 2 * m * r) by(nonlinear_arith) requires t * r == a * b + kq * m, a * b < r * m, kq * m <= r * m; //@
    assert(r > 0) by { reveal_with_fuel(pw, 5); } //@
    assert(t < 2 * m) by(nonlinear_arith) requires t * r < 2 * m * r, r > 0; //@
} //@

pub proof fn lemma_mont_final(res: nat, hi: nat, carry: bool, a: nat, b: nat, m: nat, kq: nat) //@
    requires (hi + (if carry { pw(4) } else { 0 })) * pw(4) == a * b + kq * m, m > 0, //@
             res as int == hi + (if carry { pw(4) as int } else { 0 }) - (if carry || hi >= m { m as int } else { 0 }), //@
    ensures (res * pw(4)) % m == (a * b) % m, //@
{ //@
    let t = hi + (if carry { pw(4) } else { 0 }); let r = pw(4); //@
    let d: int = if carry || hi >= m { 1 } else { 0 }; //@
    assert(res as int == t - d * m); //@
    assert((res * r) as int == (a * b) as int + (kq as int - d * r as int) * m as int) by(nonlinear_arith) //@
        requires res as int == t - d * m, t * r == a * b + kq * m; //@
    lemma_mod_multiples_vanish(kq as int - d * r as int, (a * b) as int, m as int); //@
    assert(((a * b) as int + (kq as int - d * r as int) * m as int) % (m as int) == ((a * b) as int) % (m as int)) by { //@
        assert((kq as int - d * r as int) * m as int + (a * b) as int == (a * b) as int + (kq as int - d * r as int) * m as int); //@
    } //@
} //@

// vacuity guard: the preconditions of mul are satisfiable (a concrete call verifies)
pub fn witness_mul_precondition() //@
{ //@
    let mut a = U256(B256([5, 0, 0, 0])); //@
    let b = U256(B256([7, 0, 0, 0])); //@
    let m = U256(B256([1, 0, 0, 1])); //@
    proof { //@
        reveal_with_fuel(pre, 5); reveal_with_fuel(pw, 5); //@
        assert((1 as nat * 0xffff_ffff_ffff_ffff as nat + 1) % B() == 0) by(compute_only); //@
        let sa = a.0.0@; let sb = b.0.0@; let sm = m.0.0@; //@
        assert(sa[0] == 5 && sa[1] == 0 && sa[2] == 0 && sa[3] == 0); //@
        assert(sb[0] == 7 && sb[1] == 0 && sb[2] == 0 && sb[3] == 0); //@
        assert(sm[0] == 1 && sm[1] == 0 && sm[2] == 0 && sm[3] == 1); //@
        assert(pre(sa, 4) == 5) by { assert(pre(sa, 1) == 5nat * pw(0)); assert(0 * pw(1) == 0 && 0 * pw(2) == 0 && 0 * pw(3) == 0); } //@
        assert(pre(sb, 4) == 7) by { assert(pre(sb, 1) == 7nat * pw(0)); assert(0 * pw(1) == 0 && 0 * pw(2) == 0 && 0 * pw(3) == 0); } //@
        assert(pre(sm, 4) >= 1) by { assert(pre(sm, 1) == 1nat * pw(0)); } //@
        assert(U(a) == 5 && U(b) == 7 && U(m) >= 1); //@
        assert(pw(4) >= 1000); //@
        assert(5 * 7 < pw(4) * U(m)) by(nonlinear_arith) requires pw(4) >= 1000, U(m) >= 1; //@
    } //@
    a.mul(&b, &m, 0xffff_ffff_ffff_ffff); //@
} //@

pub proof fn lemma_hi_part(s: Seq<u64>, hi: Seq<u64>) //@
    requires s.len() == 8, hi.len() == 4, forall|t: int| 0 <= t < 4 ==> s[4 + t] == hi[t], //@
    ensures pre(s, 8) - pre(s, 4) == pre(hi, 4) * pw(4), //@
{ //@
    reveal_with_fuel(pre, 9); reveal_with_fuel(pw, 9); //@
    assert(pre(s, 8) - pre(s, 4) == s[4] as nat * pw(4) + s[5] as nat * pw(5) + s[6] as nat * pw(6) + s[7] as nat * pw(7)); //@
    assert(pre(hi, 4) == hi[0] as nat * pw(0) + hi[1] as nat * pw(1) + hi[2] as nat * pw(2) + hi[3] as nat * pw(3)); //@
    assert(pw(5) == pw(1) * pw(4) && pw(6) == pw(2) * pw(4) && pw(7) == pw(3) * pw(4) && pw(4) == pw(0) * pw(4)) by { //@
        lemma_pw_add(1, 4); lemma_pw_add(2, 4); lemma_pw_add(3, 4); lemma_pw_add(0, 4); } //@
    assert((hi[0] as nat * pw(0) + hi[1] as nat * pw(1) + hi[2] as nat * pw(2) + hi[3] as nat * pw(3)) * pw(4) //@
        == hi[0] as nat * (pw(0) * pw(4)) + hi[1] as nat * (pw(1) * pw(4)) + hi[2] as nat * (pw(2) * pw(4)) + hi[3] as nat * (pw(3) * pw(4))) by(nonlinear_arith); //@
} //@
} //@

