// Development form of annot/inv.rs: U256::set_bit / div2 / is_one / is_even / invert (src/u256.rs; binary extended Euclid with the
// R^2 start value) and Fq::is_zero / Fq::inverse (field_impl!).  invert is proved for PARTIAL correctness:
// whenever it returns,  result * self == rsquared (mod modulo)  and result < modulo.  Termination is not proved.
verus! { //@
impl B256 { //@
    #[verifier::external_body] //@
    pub fn is_odd(&self) -> (r: bool) //@
        ensures r == (UB(*self) % 2 == 1) //@
    { unimplemented!() } //@
    #[verifier::external_body] //@
    pub fn is_even(&self) -> (r: bool) //@
        ensures r == (UB(*self) % 2 == 0) //@
    { unimplemented!() } //@
    #[verifier::external_body] //@
    pub fn div2(&mut self) //@
        ensures UB(*final(self)) == UB(*old(self)) / 2 //@
    { unimplemented!() } //@
    #[verifier::external_body] //@
    pub fn one() -> (r: B256) //@
        ensures r.0@ =~= seq![1u64, 0u64, 0u64, 0u64] //@
    { unimplemented!() } //@
    #[verifier::external_body] //@
    pub fn eq_(&self, other: &B256) -> (r: bool) //@
        ensures r == (self.0@ =~= other.0@) //@
    { unimplemented!() } //@
} //@

pub proof fn lemma_one_limbs(s: Seq<u64>) //@
    requires s.len() == 4, //@
    ensures (pre(s, 4) == 1) == (s =~= seq![1u64, 0u64, 0u64, 0u64]), //@
{ //@
    lemma_pw_values(); reveal_with_fuel(pre, 5); //@
    let (s0, s1, s2, s3) = (s[0] as nat, s[1] as nat, s[2] as nat, s[3] as nat); //@
    assert(s[0] as nat * pw(0) == s0); //@
    assert(pre(s, 4) == s0 + s1 * pw(1) + s2 * pw(2) + s3 * pw(3)); //@
    if pre(s, 4) == 1 { //@
        assert(s1 == 0) by(nonlinear_arith) requires s0 + s1 * pw(1) + s2 * pw(2) + s3 * pw(3) == 1, pw(1) > 1; //@
        assert(s2 == 0) by(nonlinear_arith) requires s0 + s1 * pw(1) + s2 * pw(2) + s3 * pw(3) == 1, pw(2) > 1; //@
        assert(s3 == 0) by(nonlinear_arith) requires s0 + s1 * pw(1) + s2 * pw(2) + s3 * pw(3) == 1, pw(3) > 1; //@
        assert(0 * pw(1) == 0 && 0 * pw(2) == 0 && 0 * pw(3) == 0); //@
    } //@
    if s =~= seq![1u64, 0u64, 0u64, 0u64] { //@
        assert(0 * pw(1) == 0 && 0 * pw(2) == 0 && 0 * pw(3) == 0); //@
    } //@
} //@

// setting bit 255 of a value below 2^255 adds 2^255
pub proof fn lemma_set_top_bit(s: Seq<u64>, d: Seq<u64>) //@
    requires s.len() == 4, 2 * pre(s, 4) < pw(4), d =~= s.update(3, s[3] | (1u64 << 63u64)), //@
    ensures 2 * pre(d, 4) == 2 * pre(s, 4) + pw(4), //@
{ //@
    lemma_pw_values(); reveal_with_fuel(pre, 5); //@
    let x = s[3]; //@
    assert(pre(s, 4) == pre(s, 3) + x as nat * pw(3)); //@
    assert(pre(d, 4) == pre(d, 3) + d[3] as nat * pw(3)); //@
    assert(pre(d, 3) == pre(s, 3)) by { lemma_pre_ext(d, s, 3); } //@
    assert(x < 0x8000_0000_0000_0000u64) by { //@
        if x >= 0x8000_0000_0000_0000u64 { //@
            assert(x as nat * pw(3) >= 0x8000_0000_0000_0000nat * pw(3)) by(nonlinear_arith) requires x as nat >= 0x8000_0000_0000_0000nat; //@
        } //@
    } //@
    assert((x | (1u64 << 63u64)) == x + 0x8000_0000_0000_0000u64) by(bit_vector) requires x < 0x8000_0000_0000_0000u64; //@
    assert((x as nat + 0x8000_0000_0000_0000nat) * pw(3) == x as nat * pw(3) + 0x8000_0000_0000_0000nat * pw(3)) by(nonlinear_arith); //@
} //@

// m odd:  2x = 2y (mod m)  ==>  x = y (mod m)
pub proof fn lemma_halve(x: int, y: int, m: int) //@
    requires m > 0, m % 2 == 1, cong(2 * x, 2 * y, m), //@
    ensures cong(x, y, m), //@
{ //@
    let d = x - y; //@
    lemma_mod_equivalence(2 * x, 2 * y, m); //@
    assert((2 * x - 2 * y) % m == 0); //@
    assert(2 * x - 2 * y == 2 * d); //@
    lemma_fundamental_div_mod(2 * d, m); //@
    let t = (2 * d) / m; //@
    assert(2 * d == m * t); //@
    lemma_fundamental_div_mod(m, 2); //@
    let k = m / 2; //@
    assert(m == 2 * k + 1); //@
    assert(d == m * (d - k * t)) by(nonlinear_arith) requires 2 * d == m * t, m == 2 * k + 1; //@
    lemma_mod_multiples_basic(d - k * t, m); //@
    assert((m * (d - k * t)) % m == 0) by { assert(m * (d - k * t) == (d - k * t) * m) by(nonlinear_arith); } //@
    lemma_mod_equivalence(x, y, m); //@
} //@

// the halving step of the Euclid loop
pub proof fn lemma_inv_half(b0: int, b1: int, u0: int, u1: int, a: int, r2: int, m: int) //@
    requires m > 0, m % 2 == 1, cong(b0 * a, u0 * r2, m), u0 == 2 * u1, 2 * b1 == b0 || 2 * b1 == b0 + m, //@
    ensures cong(b1 * a, u1 * r2, m), //@
{ //@
    assert(2 * (b1 * a) == (2 * b1) * a) by(nonlinear_arith); //@
    assert(2 * (u1 * r2) == u0 * r2) by(nonlinear_arith) requires u0 == 2 * u1; //@
    if 2 * b1 == b0 + m { //@
        assert((b0 + m) * a == b0 * a + a * m) by(nonlinear_arith); //@
        lemma_mod_multiples_vanish(a, b0 * a, m); //@
        assert((a * m + b0 * a) % m == (b0 * a) % m); //@
        assert(b0 * a + a * m == a * m + b0 * a); //@
    } //@
    assert(cong(2 * (b1 * a), 2 * (u1 * r2), m)); //@
    lemma_halve(b1 * a, u1 * r2, m); //@
} //@

// the subtraction step of the Euclid loop
pub proof fn lemma_inv_sub(b0: int, c0: int, b1: int, u0: int, v0: int, a: int, r2: int, m: int) //@
    requires m > 0, cong(b0 * a, u0 * r2, m), cong(c0 * a, v0 * r2, m), b1 == (b0 - c0) % m, //@
    ensures cong(b1 * a, (u0 - v0) * r2, m), //@
{ //@
    lemma_mul_mod_noop_left(b0 - c0, a, m); //@
    assert((b0 - c0) * a == b0 * a - c0 * a) by(nonlinear_arith); //@
    assert((u0 - v0) * r2 == u0 * r2 - v0 * r2) by(nonlinear_arith); //@
    lemma_sub_mod_noop(b0 * a, c0 * a, m); //@
    lemma_sub_mod_noop(u0 * r2, v0 * r2, m); //@
} //@

// x * y = R^2 (mod q)  ==>  val(x) * val(y) = 1 (mod q)
pub proof fn lemma_val_inv(x: nat, y: nat) //@
    requires (x * y) % QN() == R2LIT() % QN(), //@
    ensures (((x * RINV()) % QN()) * ((y * RINV()) % QN())) % QN() == 1, //@
{ //@
    lemma_consts(); lemma_lits(); //@
    let q = QN() as int; let r = pw(4) as int; let ri = RINV() as int; let xi = x as int; let yi = y as int; //@
    lemma_mod_twice(r * r, q); //@
    assert(cong(xi * yi, r * r, q)); //@
    lemma_cong_mul(xi * yi, r * r, ri * ri, q); //@
    assert(r * r * (ri * ri) == (r * ri) * (r * ri)) by(nonlinear_arith); //@
    lemma_mul_mod_noop(r * ri, r * ri, q); //@
    assert(1 * 1 == 1); //@
    lemma_small_mod(1, QN()); //@
    assert(cong(xi * yi * (ri * ri), 1, q)); //@
    assert(xi * yi * (ri * ri) == (xi * ri) * (yi * ri)) by(nonlinear_arith); //@
    lemma_mul_mod_noop(xi * ri, yi * ri, q); //@
} //@

impl U256 { //@

//@BEGIN set_bit
pub fn set_bit(&mut self, n: usize, to: bool) -> (res: bool) //@RET bool
    ensures res == (n < 256), //@
        n >= 256 ==> *final(self) == *old(self), //@
        n < 256 ==> final(self).0.0@ =~= old(self).0.0@.update((n >> 6) as int, //@
            if to { old(self).0.0@[(n >> 6) as int] | (1u64 << ((n & 0x3f) as u64)) } else { old(self).0.0@[(n >> 6) as int] & !(1u64 << ((n & 0x3f) as u64)) }), //@
{
if n >= 256
{
false
}
else
{
let limb = n >> 6;
let bit = n & 0x3f;
proof { assert(n >> 6 < 4 && (n & 0x3f) < 64) by(bit_vector) requires n < 256; } //@
if to
{
self.0.0[limb] = self.0.0[limb] | (1 << bit);
}
else
{
self.0.0[limb] = self.0.0[limb] & (!(1 << bit));
}
true
}
}
//@END


//@BEGIN is_one
pub fn is_one(&self) -> (res: bool) //@RET bool
    ensures res == (U(*self) == 1), //@
{
proof { lemma_one_limbs(self.0.0@); } //@
self.0.eq_(&B256::one())
}
//@END


//@BEGIN is_even
pub fn is_even(&self) -> (res: bool) //@RET bool
    ensures res == (U(*self) % 2 == 0), //@
{
self.0.is_even()
}
//@END


//@BEGIN div2
pub fn div2(&mut self, modulo: &U256)
    requires U(*old(self)) < U(*modulo), U(*modulo) % 2 == 1, //@
    ensures U(*final(self)) < U(*modulo), //@
            2 * U(*final(self)) == U(*old(self)) + (if U(*old(self)) % 2 == 1 { U(*modulo) } else { 0 }), //@
{
proof { lemma_pre_bound(old(self).0.0@, 4); lemma_pre_bound(modulo.0.0@, 4); lemma_pw_values(); } //@
let mut carry = false;
if self.0.is_odd()
{
carry = self.0.add_with_carry(&modulo.0);
}
let ghost s1 = *self; //@
self.0.div2();
proof { lemma_pre_bound(s1.0.0@, 4); } //@
if carry
{
let ghost s2 = *self; //@
proof { assert(255usize >> 6 == 3 && (255usize & 0x3f) == 63) by(bit_vector); } //@
self.set_bit(255, true);
proof { lemma_set_top_bit(s2.0.0@, self.0.0@); } //@
self.subtract_modulus_with_carry(modulo, false);
}
}
//@END


//@BEGIN invert
#[verifier::exec_allows_no_decreases_clause] //@
pub fn invert(&mut self, modulo: &U256, rsquared: &U256)
    requires U(*modulo) % 2 == 1, U(*rsquared) < U(*modulo), //@
    ensures U(*final(self)) < U(*modulo), //@
            (U(*final(self)) * U(*old(self))) % U(*modulo) == U(*rsquared) % U(*modulo), //@
{
let mut u = *self;
let mut v = *modulo;
let mut b = *rsquared;
let mut c = U256(B256([0, 0, 0, 0]));
let ghost a = U(*old(self)) as int; //@
let ghost r2 = U(*rsquared) as int; //@
let ghost m = U(*modulo) as int; //@
proof { //@
    reveal_with_fuel(pre, 5); //@
    assert(U(c) == 0) by { assert(0 * pw(0) == 0 && 0 * pw(1) == 0 && 0 * pw(2) == 0 && 0 * pw(3) == 0); } //@
    assert(r2 * a == a * r2) by(nonlinear_arith); //@
    assert(0 * a == 0); //@
    lemma_mod_multiples_basic(r2, m); //@
    assert(m * r2 == r2 * m) by(nonlinear_arith); //@
    lemma_small_mod(0, m as nat); //@
} //@
while !u.is_one() && !v.is_one()
    invariant //@
        m == U(*modulo) as int, m > 0, m % 2 == 1, a == U(*old(self)) as int, r2 == U(*rsquared) as int, //@
        U(b) < U(*modulo), U(c) < U(*modulo), //@
        cong(U(b) as int * a, U(u) as int * r2, m), //@
        cong(U(c) as int * a, U(v) as int * r2, m), //@
{
while u.is_even()
    invariant //@
        m == U(*modulo) as int, m > 0, m % 2 == 1, //@
        U(b) < U(*modulo), //@
        cong(U(b) as int * a, U(u) as int * r2, m), //@
{
let ghost u0 = u; let ghost b0 = b; //@
u.0.div2(); b.div2(modulo);
proof { lemma_inv_half(U(b0) as int, U(b) as int, U(u0) as int, U(u) as int, a, r2, m); } //@
}
while v.is_even()
    invariant //@
        m == U(*modulo) as int, m > 0, m % 2 == 1, //@
        U(c) < U(*modulo), //@
        cong(U(c) as int * a, U(v) as int * r2, m), //@
{
let ghost v0 = v; let ghost c0 = c; //@
v.0.div2(); c.div2(modulo);
proof { lemma_inv_half(U(c0) as int, U(c) as int, U(v0) as int, U(v) as int, a, r2, m); } //@
}
let ghost u0 = u; let ghost v0 = v; let ghost b0 = b; let ghost c0 = c; //@
proof { lemma_pre_bound(u.0.0@, 4); lemma_pre_bound(v.0.0@, 4); } //@
if u.0.ge_(&v.0)
{
u.0.sub_with_borrow(&v.0);
b.sub(&c, modulo);
proof { lemma_inv_sub(U(b0) as int, U(c0) as int, U(b) as int, U(u0) as int, U(v0) as int, a, r2, m); } //@
}
else
{
v.0.sub_with_borrow(&u.0); c.sub(&b, modulo);
proof { lemma_inv_sub(U(c0) as int, U(b0) as int, U(c) as int, U(v0) as int, U(u0) as int, a, r2, m); } //@
}
}
proof { assert(1 * r2 == r2); lemma_mod_twice(r2, m); } //@
if u.is_one()
{
self.0 = b.0;
}
else
{
self.0 = c.0;
}
}
//@END

} //@
// parity of a 4-limb value is the parity of its low limb; replacing the low limb changes the value by the difference
pub proof fn lemma_low_limb(s: Seq<u64>, d: Seq<u64>) //@
    requires s.len() == 4, d =~= s.update(0, d[0]), //@
    ensures pre(s, 4) % 2 == s[0] as nat % 2, //@
            pre(d, 4) as int == pre(s, 4) as int + d[0] as int - s[0] as int, //@
{ //@
    lemma_pw_values(); reveal_with_fuel(pre, 5); //@
    let (s0, s1, s2, s3) = (s[0] as nat, s[1] as nat, s[2] as nat, s[3] as nat); //@
    assert(s[0] as nat * pw(0) == s0); //@
    assert(d[0] as nat * pw(0) == d[0] as nat); //@
    assert(pre(s, 4) == s0 + s1 * pw(1) + s2 * pw(2) + s3 * pw(3)); //@
    assert(pre(d, 4) == d[0] as nat + s1 * pw(1) + s2 * pw(2) + s3 * pw(3)); //@
    let h = s1 * 0x8000_0000_0000_0000nat + s2 * 0x8000_0000_0000_0000_0000_0000_0000_0000nat + s3 * 0x8000_0000_0000_0000_0000_0000_0000_0000_0000_0000_0000_0000nat; //@
    assert(s1 * pw(1) + s2 * pw(2) + s3 * pw(3) == 2 * h) by(nonlinear_arith) //@
        requires pw(1) == 0x1_0000_0000_0000_0000nat, pw(2) == 0x1_0000_0000_0000_0000_0000_0000_0000_0000nat, //@
                 pw(3) == 0x1_0000_0000_0000_0000_0000_0000_0000_0000_0000_0000_0000_0000nat, //@
                 h == s1 * 0x8000_0000_0000_0000nat + s2 * 0x8000_0000_0000_0000_0000_0000_0000_0000nat + s3 * 0x8000_0000_0000_0000_0000_0000_0000_0000_0000_0000_0000_0000nat; //@
    lemma_mod_multiples_vanish(h as int, s0 as int, 2); //@
    assert((2 * h + s0) % 2 == s0 % 2); //@
} //@

// halving on the value:  2 * val(r) = val(x)  when  2 * r = x (+ q)
pub proof fn lemma_div2_val(r: nat, x: nat) //@
    requires r < QN(), 2 * r == x || 2 * r == x + QN(), //@
    ensures (2 * ((r * RINV()) % QN())) % QN() == (x * RINV()) % QN(), //@
{ //@
    lemma_consts(); //@
    let q = QN() as int; let ri = RINV() as int; let ri_ = r as int; let xi = x as int; //@
    lemma_mul_mod_noop_right(2, ri_ * ri, q); //@
    assert(2 * (ri_ * ri) == (2 * ri_) * ri) by(nonlinear_arith); //@
    if 2 * r == x + QN() { //@
        assert((xi + q) * ri == xi * ri + ri * q) by(nonlinear_arith); //@
        lemma_mod_multiples_vanish(ri, xi * ri, q); //@
        assert(ri * q + xi * ri == xi * ri + ri * q); //@
    } //@
} //@
pub open spec fn valn(r: nat) -> nat { (r * RINV()) % QN() } //@
impl Fq { //@

//@BEGIN fq_div2
pub fn div2(self) -> (res: Self) //@RET Self
    requires wf(self), //@
    ensures wf(res), (2 * valn(U(res.0))) % QN() == val(self), valn(U(res.0)) == val(res), //@
{
proof { //@
    lemma_consts(); //@
    assert(QN() % 2 == 1) by { lemma_consts_gen(); lemma_low_limb(FQ_C@, FQ_C@); } //@
    lemma_mod_bound((U(self.0) * RINV()) as int, QN() as int); //@
    lemma_small_mod(val(self), QN()); //@
    assert forall|r: nat| r < QN() && (2 * r == U(self.0) || 2 * r == U(self.0) + QN()) implies (2 * #[trigger] valn(r)) % QN() == val(self) by { //@
        lemma_div2_val(r, U(self.0)); //@
    } //@
} //@
let mut s_ = self; s_.0.div2(&U256(B256(FQ_C))); s_
}
//@END


//@BEGIN fq_is_zero
pub fn is_zero(&self) -> (res: bool) //@RET bool
    ensures res == (U(self.0) == 0), //@
{
self.0.is_zero()
}
//@END


//@BEGIN fq_inverse
pub fn inverse(&self) -> (res: Option<Self>) //@RET Option<Self>
    requires wf(*self), //@
    ensures res.is_none() == (val(*self) == 0), //@
            res.is_some() ==> wf(res.unwrap()) && (val(res.unwrap()) * val(*self)) % QN() == 1, //@
{
proof { lemma_consts(); lemma_lits(); lemma_zero_val(U(self.0)); } //@
if self.is_zero()
{
None
}
else
{
let mut a = self.0;
a.invert(&U256(B256(FQ_C)), &U256(B256(FQ_SQUARED_C)));
proof { lemma_val_inv(U(a), U(self.0)); } //@
Some(Fq(a))
}
}
//@END

} //@
// a canonical Montgomery representative is zero exactly when its value is zero
pub proof fn lemma_zero_val(x: nat) //@
    requires x < QN(), //@
    ensures (x == 0) == ((x * RINV()) % QN() == 0), //@
{ //@
    lemma_consts(); lemma_lits(); //@
    let q = QN() as int; let r = pw(4) as int; let ri = RINV() as int; let xi = x as int; //@
    if x == 0 { assert(0 * RINV() == 0); lemma_small_mod(0, QN()); } //@
    if (x * RINV()) % QN() == 0 { //@
        // x = x * ri * r = 0 (mod q) //@
        lemma_cong_mul(xi * ri, 0, r, q); //@
        assert(0 * r == 0); //@
        assert(xi * ri * r == xi * r * ri) by(nonlinear_arith); //@
        lemma_r_rinv(xi); //@
        lemma_small_mod(0, QN()); //@
        lemma_small_mod(x, QN()); //@
    } //@
} //@
} //@

