// Prelude shared by the annotated limb-layer files: specification functions, arithmetic lemmas and the
// data types of the real crate that the extracted functions operate on.
//  * B256 stands for ark_ff::BigInt<4>; its methods are external (assumption A6) with the contracts stated here,
//    which the Kani harnesses ark_* prove for ark-ff's portable implementation.
//  * MulBuffer::get and mac_discard are the real bodies of src/arith.rs (verified here); MulBuffer::set is the body of
//    get_mut with the assignment pushed to the returned place (rule R4).
use vstd::prelude::*;
use vstd::arithmetic::div_mod::*;
use vstd::arithmetic::mul::*;
verus! {
pub open spec fn B() -> nat { 0x1_0000_0000_0000_0000 }
pub open spec fn pw(k: int) -> nat decreases k { if k <= 0 { 1 } else { B() * pw(k - 1) } }
pub open spec fn pre(s: Seq<u64>, k: int) -> nat decreases k
{ if k <= 0 { 0 } else { pre(s, k - 1) + s[k - 1] as nat * pw(k - 1) } }

pub proof fn lemma_split(tmp: u128)
    ensures tmp as nat == ((tmp >> 64) as u64) as nat * B() + (tmp as u64) as nat,
{ assert(tmp == ((tmp >> 64) as u64 as u128) * 0x1_0000_0000_0000_0000u128 + (tmp as u64 as u128)) by (bit_vector); }

pub proof fn lemma_mulbound(b: u64, c: u64)
    ensures (b as nat) * (c as nat) <= 0xffff_ffff_ffff_ffffnat * 0xffff_ffff_ffff_ffffnat,
            (b as u128) * (c as u128) == (b as nat) * (c as nat),
{ assert((b as nat) * (c as nat) <= 0xffff_ffff_ffff_ffffnat * 0xffff_ffff_ffff_ffffnat) by (nonlinear_arith)
        requires (b as nat) <= 0xffff_ffff_ffff_ffffnat, (c as nat) <= 0xffff_ffff_ffff_ffffnat; }

pub proof fn lemma_pre_ext(a: Seq<u64>, b: Seq<u64>, k: int)
    requires forall|t: int| 0 <= t < k ==> a[t] == b[t],
    ensures pre(a, k) == pre(b, k),
    decreases k
{ if k > 0 { lemma_pre_ext(a, b, k - 1); } }

pub proof fn lemma_tail(s: Seq<u64>, k: int, n: int)
    requires 0 <= k <= n, forall|t: int| k <= t < n ==> s[t] == 0,
    ensures pre(s, n) == pre(s, k),
    decreases n - k
{ if k < n { lemma_tail(s, k, n - 1); assert(s[n-1] as nat * pw(n-1) == 0) by(nonlinear_arith) requires s[n-1] == 0; } }

pub proof fn lemma_pw_add(a: int, b: int)
    requires a >= 0, b >= 0,
    ensures pw(a + b) == pw(a) * pw(b),
    decreases b
{
    if b == 0 { assert(pw(a) * 1 == pw(a)); }
    else { lemma_pw_add(a, b - 1); assert(pw(a + b) == B() * pw(a + b - 1));
           assert(B() * (pw(a) * pw(b-1)) == pw(a) * (B() * pw(b-1))) by(nonlinear_arith); }
}
pub proof fn lemma_pre_range(a: Seq<u64>, b: Seq<u64>, lo: int, hi: int)
    requires 0 <= lo <= hi, forall|t: int| lo <= t < hi ==> a[t] == b[t],
    ensures pre(a, hi) - pre(a, lo) == pre(b, hi) - pre(b, lo),
    decreases hi - lo
{ if lo < hi { lemma_pre_range(a, b, lo, hi - 1); } }

pub proof fn lemma_pre_bound(s: Seq<u64>, k: int)
    requires 0 <= k,
    ensures pre(s, k) < pw(k),
    decreases k
{
    if k > 0 {
        lemma_pre_bound(s, k - 1);
        assert(pre(s, k - 1) + s[k - 1] as nat * pw(k - 1) < B() * pw(k - 1)) by(nonlinear_arith)
            requires pre(s, k - 1) < pw(k - 1), (s[k - 1] as nat) < B();
    }
}

// ---- data types of the crate
#[derive(Clone, Copy)]
pub struct B256(pub [u64; 4]);
#[derive(Clone, Copy)]
pub struct U256(pub B256);
pub open spec fn UB(x: B256) -> nat { pre(x.0@, 4) }
pub open spec fn U(x: U256) -> nat { pre(x.0.0@, 4) }

// ark_ff::BigInt<4> (assumption A6; the Kani harnesses ark_* prove these contracts for the portable implementation)
impl B256 {
    #[verifier::external_body]
    pub fn ge_(&self, other: &B256) -> (r: bool)
        ensures r == (UB(*self) >= UB(*other))
    { unimplemented!() }
    #[verifier::external_body]
    pub fn sub_with_borrow(&mut self, other: &B256) -> (borrow: bool)
        ensures borrow == (UB(*old(self)) < UB(*other)),
                UB(*final(self)) as int == UB(*old(self)) as int - UB(*other) as int + (if borrow { pw(4) as int } else { 0 }),
    { unimplemented!() }
    #[verifier::external_body]
    pub fn add_with_carry(&mut self, other: &B256) -> (carry: bool)
        ensures UB(*final(self)) + (if carry { pw(4) } else { 0 }) == UB(*old(self)) + UB(*other),
    { unimplemented!() }
}

pub struct MulBuffer<const N: usize> { pub b0: [u64; N], pub b1: [u64; N] }
pub open spec fn bv(r: MulBuffer<4>) -> Seq<u64> { r.b0@ + r.b1@ }

impl<const N: usize> MulBuffer<N> {
    pub const fn zeroed() -> (r: Self)
        ensures forall|i: int| 0 <= i < N ==> r.b0[i] == 0 && r.b1[i] == 0
    {
        let b = [0u64; N];
        Self { b0: b, b1: b }
    }
    // real body of arith.rs
    pub const fn get(&self, index: usize) -> (r: &u64)
        requires index < 2 * N,
        ensures *r == (if index < N { self.b0[index as int] } else { self.b1[index - N] })
    {
        if index < N { &self.b0[index] } else { &self.b1[index - N] }
    }
    // body of get_mut with the assignment pushed to the returned place
    pub fn set(&mut self, index: usize, v: u64)
        requires index < 2 * N,
        ensures final(self).b0@ == (if index < N { old(self).b0@.update(index as int, v) } else { old(self).b0@ }),
                final(self).b1@ == (if index < N { old(self).b1@ } else { old(self).b1@.update(index - N, v) }),
    {
        if index < N { self.b0[index] = v; } else { self.b1[index - N] = v; }
    }
}
pub proof fn lemma_bv_get(r: MulBuffer<4>, k: int)
    requires 0 <= k < 8,
    ensures bv(r)[k] == (if k < 4 { r.b0[k] } else { r.b1[k - 4] }), bv(r).len() == 8,
{ }
pub proof fn lemma_bv_set(r0: MulBuffer<4>, r1: MulBuffer<4>, k: int, v: u64)
    requires 0 <= k < 8,
        r1.b0@ == (if k < 4 { r0.b0@.update(k, v) } else { r0.b0@ }),
        r1.b1@ == (if k < 4 { r0.b1@ } else { r0.b1@.update(k - 4, v) }),
    ensures bv(r1) =~= bv(r0).update(k, v),
{ }

// real body of arith.rs
pub fn mac_discard(a: u64, b: u64, c: u64, carry: &mut u64)
    ensures (*final(carry)) as nat * B() + ((a as nat + b as nat * c as nat) % B()) == a as nat + b as nat * c as nat,
{
    proof { lemma_mulbound(b, c); }
    let tmp = (a as u128) + (b as u128 * c as u128);
    proof { lemma_split(tmp);
        let hi = ((tmp >> 64) as u64) as int; let lo = (tmp as u64) as int; let bb = B() as int;
        lemma_fundamental_div_mod_converse(tmp as int, bb, hi, lo);
    }
    *carry = #[verifier::truncate] ((tmp >> 64) as u64);
}
} // verus!
