// Development form of annot/square.rs: U256::square (src/u256.rs) - off-diagonal products, doubling by shifts, diagonal
// squares, Montgomery reduction, conditional subtraction - against  res * 2^256 == self * self  (mod modulo), res < modulo.
verus! { //@
// sum of the limbs above position i, at their weights:  a[i+1] B^(i+1) + .. + a[3] B^3
pub open spec fn hi_part(a: Seq<u64>, i: int) -> int { pre(a, 4) as int - pre(a, i + 1) as int } //@
// off-diagonal products of rows 0..i
pub open spec fn od(a: Seq<u64>, i: int) -> int decreases i //@
{ if i <= 0 { 0 } else { od(a, i - 1) + a[i - 1] as int * pw(i - 1) as int * hi_part(a, i - 1) } } //@
// diagonal squares of limbs 0..i
pub open spec fn dg(a: Seq<u64>, i: int) -> int decreases i //@
{ if i <= 0 { 0 } else { dg(a, i - 1) + a[i - 1] as int * a[i - 1] as int * pw(2 * (i - 1)) as int } } //@
pub open spec fn shl1(x: u64, y: u64) -> u64 { (x << 1) | (y >> 63) } //@

pub proof fn lemma_pw_values8() //@
    ensures pw(7) == 0x1_0000_0000_0000_0000_0000_0000_0000_0000_0000_0000_0000_0000_0000_0000_0000_0000_0000_0000_0000_0000_0000_0000_0000_0000_0000_0000_0000_0000nat, //@
            pw(8) == 0x1_0000_0000_0000_0000_0000_0000_0000_0000_0000_0000_0000_0000_0000_0000_0000_0000_0000_0000_0000_0000_0000_0000_0000_0000_0000_0000_0000_0000_0000_0000_0000_0000nat, //@
{ //@
    assert(pw(7) == 0x1_0000_0000_0000_0000_0000_0000_0000_0000_0000_0000_0000_0000_0000_0000_0000_0000_0000_0000_0000_0000_0000_0000_0000_0000_0000_0000_0000_0000nat //@
        && pw(8) == 0x1_0000_0000_0000_0000_0000_0000_0000_0000_0000_0000_0000_0000_0000_0000_0000_0000_0000_0000_0000_0000_0000_0000_0000_0000_0000_0000_0000_0000_0000_0000_0000_0000nat) by(compute_only); //@
} //@
pub proof fn lemma_pw_values6() //@
    ensures pw(0) == 1, pw(1) == 0x1_0000_0000_0000_0000nat, pw(2) == 0x1_0000_0000_0000_0000_0000_0000_0000_0000nat, //@
            pw(3) == 0x1_0000_0000_0000_0000_0000_0000_0000_0000_0000_0000_0000_0000nat, //@
            pw(4) == 0x1_0000_0000_0000_0000_0000_0000_0000_0000_0000_0000_0000_0000_0000_0000_0000_0000nat, //@
            pw(5) == 0x1_0000_0000_0000_0000_0000_0000_0000_0000_0000_0000_0000_0000_0000_0000_0000_0000_0000_0000_0000_0000nat, //@
            pw(6) == 0x1_0000_0000_0000_0000_0000_0000_0000_0000_0000_0000_0000_0000_0000_0000_0000_0000_0000_0000_0000_0000_0000_0000_0000_0000nat, //@
{ //@
    assert(pw(0) == 1 && pw(1) == 0x1_0000_0000_0000_0000nat && pw(2) == 0x1_0000_0000_0000_0000_0000_0000_0000_0000nat //@
        && pw(3) == 0x1_0000_0000_0000_0000_0000_0000_0000_0000_0000_0000_0000_0000nat //@
        && pw(4) == 0x1_0000_0000_0000_0000_0000_0000_0000_0000_0000_0000_0000_0000_0000_0000_0000_0000nat //@
        && pw(5) == 0x1_0000_0000_0000_0000_0000_0000_0000_0000_0000_0000_0000_0000_0000_0000_0000_0000_0000_0000_0000_0000nat //@
        && pw(6) == 0x1_0000_0000_0000_0000_0000_0000_0000_0000_0000_0000_0000_0000_0000_0000_0000_0000_0000_0000_0000_0000_0000_0000_0000_0000nat) by(compute_only); //@
} //@

// one limb of the one-bit left shift:  (x << 1 | y >> 63) == 2x - (x >> 63) B + (y >> 63)
pub proof fn lemma_shl1(x: u64, y: u64) //@
    ensures shl1(x, y) as int == 2 * (x as int) - ((x >> 63) as int) * (B() as int) + ((y >> 63) as int), //@
            (x >> 63) <= 1, (y >> 63) <= 1, //@
{ //@
    let w = shl1(x, y); //@
    assert((w as u128) + ((x >> 63) as u128) * 0x1_0000_0000_0000_0000u128 == 2 * (x as u128) + ((y >> 63) as u128) //@
           && (x >> 63) <= 1 && (y >> 63) <= 1) by(bit_vector) //@
        requires w == (x << 1) | (y >> 63); //@
} //@

// the shift phase doubles the 8-limb value (top limb of the input is zero, so nothing is shifted out)
pub proof fn lemma_shift8(s: Seq<u64>, d: Seq<u64>) //@
    requires s.len() == 8, d.len() == 8, s[0] == 0, s[7] == 0, d[0] == 0, //@
        forall|t: int| 1 <= t < 8 ==> #[trigger] d[t] == shl1(s[t], s[t - 1]), //@
    ensures pre(d, 8) == 2 * pre(s, 8), //@
{ //@
    lemma_pw_values6(); lemma_pw_values8(); //@
    reveal_with_fuel(pre, 9); //@
    lemma_shl1(s[1], s[0]); lemma_shl1(s[2], s[1]); lemma_shl1(s[3], s[2]); lemma_shl1(s[4], s[3]); //@
    lemma_shl1(s[5], s[4]); lemma_shl1(s[6], s[5]); lemma_shl1(s[7], s[6]); //@
    assert((0u64 >> 63) == 0) by(bit_vector); //@
    let (s1, s2, s3, s4, s5, s6) = (s[1] as int, s[2] as int, s[3] as int, s[4] as int, s[5] as int, s[6] as int); //@
    let (h1, h2, h3, h4, h5, h6) = ((s[1] >> 63) as int, (s[2] >> 63) as int, (s[3] >> 63) as int, (s[4] >> 63) as int, (s[5] >> 63) as int, (s[6] >> 63) as int); //@
    let (d1, d2, d3, d4, d5, d6, d7) = (d[1] as int, d[2] as int, d[3] as int, d[4] as int, d[5] as int, d[6] as int, d[7] as int); //@
    let (a1, a2, a3, a4, a5, a6, a7) = (pw(1) as int, pw(2) as int, pw(3) as int, pw(4) as int, pw(5) as int, pw(6) as int, pw(7) as int); //@
    assert(d[0] as nat * pw(0) == 0); //@
    assert(s[0] as nat * pw(0) == 0); //@
    assert(s[7] as nat * pw(7) == 0); //@
    assert(pre(d, 8) as int == d1 * a1 + d2 * a2 + d3 * a3 + d4 * a4 + d5 * a5 + d6 * a6 + d7 * a7); //@
    assert(pre(s, 8) as int == s1 * a1 + s2 * a2 + s3 * a3 + s4 * a4 + s5 * a5 + s6 * a6); //@
    assert(d1 * a1 + d2 * a2 + d3 * a3 + d4 * a4 + d5 * a5 + d6 * a6 + d7 * a7 //@
        == 2 * (s1 * a1 + s2 * a2 + s3 * a3 + s4 * a4 + s5 * a5 + s6 * a6)) by(nonlinear_arith) //@
        requires //@
            d1 == 2 * s1 - h1 * a1, d2 == 2 * s2 - h2 * a1 + h1, d3 == 2 * s3 - h3 * a1 + h2, d4 == 2 * s4 - h4 * a1 + h3, //@
            d5 == 2 * s5 - h5 * a1 + h4, d6 == 2 * s6 - h6 * a1 + h5, d7 == h6, //@
            a1 == 0x1_0000_0000_0000_0000int, a2 == 0x1_0000_0000_0000_0000_0000_0000_0000_0000int, //@
            a3 == 0x1_0000_0000_0000_0000_0000_0000_0000_0000_0000_0000_0000_0000int, //@
            a4 == 0x1_0000_0000_0000_0000_0000_0000_0000_0000_0000_0000_0000_0000_0000_0000_0000_0000int, //@
            a5 == 0x1_0000_0000_0000_0000_0000_0000_0000_0000_0000_0000_0000_0000_0000_0000_0000_0000_0000_0000_0000_0000int, //@
            a6 == 0x1_0000_0000_0000_0000_0000_0000_0000_0000_0000_0000_0000_0000_0000_0000_0000_0000_0000_0000_0000_0000_0000_0000_0000_0000int, //@
            a7 == 0x1_0000_0000_0000_0000_0000_0000_0000_0000_0000_0000_0000_0000_0000_0000_0000_0000_0000_0000_0000_0000_0000_0000_0000_0000_0000_0000_0000_0000int; //@
} //@

// (x0 + x1 + x2 + x3)^2 = 2 * (off-diagonal) + (diagonal)
pub proof fn lemma_square_identity(a: Seq<u64>) //@
    requires a.len() == 4, //@
    ensures 2 * od(a, 3) + dg(a, 4) == pre(a, 4) as int * pre(a, 4) as int, //@
{ //@
    reveal_with_fuel(pre, 5); reveal_with_fuel(od, 4); reveal_with_fuel(dg, 5); //@
    lemma_pw_values6(); //@
    let (a0, a1, a2, a3) = (a[0] as int, a[1] as int, a[2] as int, a[3] as int); //@
    let (p0, p1, p2, p3) = (pw(0) as int, pw(1) as int, pw(2) as int, pw(3) as int); //@
    let (x0, x1, x2, x3) = (a0 * p0, a1 * p1, a2 * p2, a3 * p3); //@
    assert(pw(0) == p0 * p0 && pw(2) == p1 * p1 && pw(4) == p2 * p2 && pw(6) == p3 * p3) by { //@
        lemma_pw_add(0, 0); lemma_pw_add(1, 1); lemma_pw_add(2, 2); lemma_pw_add(3, 3); //@
    } //@
    assert(pre(a, 4) as int == x0 + x1 + x2 + x3); //@
    assert(pre(a, 1) as int == x0 && pre(a, 2) as int == x0 + x1 && pre(a, 3) as int == x0 + x1 + x2); //@
    assert(hi_part(a, 0) == x1 + x2 + x3 && hi_part(a, 1) == x2 + x3 && hi_part(a, 2) == x3); //@
    assert(od(a, 3) == a0 * p0 * (x1 + x2 + x3) + a1 * p1 * (x2 + x3) + a2 * p2 * x3); //@
    assert(a0 * a0 * (p0 * p0) == x0 * x0) by(nonlinear_arith) requires x0 == a0 * p0; //@
    assert(a1 * a1 * (p1 * p1) == x1 * x1) by(nonlinear_arith) requires x1 == a1 * p1; //@
    assert(a2 * a2 * (p2 * p2) == x2 * x2) by(nonlinear_arith) requires x2 == a2 * p2; //@
    assert(a3 * a3 * (p3 * p3) == x3 * x3) by(nonlinear_arith) requires x3 == a3 * p3; //@
    assert(dg(a, 4) == x0 * x0 + x1 * x1 + x2 * x2 + x3 * x3); //@
    assert(2 * (x0 * (x1 + x2 + x3) + x1 * (x2 + x3) + x2 * x3) + (x0 * x0 + x1 * x1 + x2 * x2 + x3 * x3) //@
        == (x0 + x1 + x2 + x3) * (x0 + x1 + x2 + x3)) by(nonlinear_arith); //@
} //@

// one step of the diagonal phase (two limbs)
pub proof fn lemma_diag_step(P: int, x0: int, x1: int, sq: int, c0: int, c1: int, c2: int, w0: int, w1: int) //@
    requires x0 + sq + c0 == c1 * (B() as int) + w0, x1 + c1 == c2 * (B() as int) + w1, //@
    ensures w0 * P + w1 * ((B() as int) * P) + c2 * ((B() as int) * ((B() as int) * P)) == c0 * P + x0 * P + x1 * ((B() as int) * P) + sq * P, //@
{ //@
    let b = B() as int; //@
    assert(w0 * P + w1 * (b * P) + c2 * (b * (b * P)) == c0 * P + x0 * P + x1 * (b * P) + sq * P) by(nonlinear_arith) //@
        requires x0 + sq + c0 == c1 * b + w0, x1 + c1 == c2 * b + w1; //@
} //@

impl U256 { //@


//@BEGIN square
pub fn square(&mut self, modulo: &U256, inv: u64)
    requires mont_inv_ok(modulo.0.0[0], inv), //@
             U(*old(self)) * U(*old(self)) < pw(4) * U(*modulo), //@
    ensures U(*final(self)) < U(*modulo), //@
            (U(*final(self)) * pw(4)) % U(*modulo) == (U(*old(self)) * U(*old(self))) % U(*modulo), //@
{
let mut r = MulBuffer::<4>::zeroed();
let mut carry = 0;
let ghost a = old(self).0.0@; //@
proof { //@
    assert(forall|t: int| 0 <= t < 8 ==> bv(r)[t] == 0); //@
    assert(pre(bv(r), 8) == 0) by { lemma_tail(bv(r), 0, 8); } //@
} //@
for i in 0..3usize
    invariant //@
        *self == *old(self), a == old(self).0.0@, a.len() == 4, carry == 0, //@
        pre(bv(r), 8) as int == od(a, i as int), //@
        forall|t: int| i + 4 <= t < 8 ==> bv(r)[t] == 0, //@
        bv(r)[0] == 0, //@
        bv(r).len() == 8, //@
{
let ghost r0 = bv(r); //@
proof { assert(pre(a, i + 1) as int - pre(a, i + 1) as int == 0); assert(a[i as int] as int * pw(i as int) as int * 0 == 0); } //@
for j in (i + 1)..4usize
    invariant //@
        0 <= i < 3, bv(r).len() == 8, r0.len() == 8, *self == *old(self), a == old(self).0.0@, a.len() == 4, //@
        forall|t: int| i + 4 <= t < 8 ==> bv(r)[t] == 0, //@
        forall|t: int| i + j <= t < 8 ==> #[trigger] bv(r)[t] == r0[t], //@
        bv(r)[0] == 0, //@
        pre(bv(r), i + j) as int + carry as int * pw(i + j) as int + (pre(r0, 8) as int - pre(r0, i + j) as int) //@
            == pre(r0, 8) as int + a[i as int] as int * pw(i as int) as int * (pre(a, j as int) as int - pre(a, i + 1) as int), //@
{
let ghost carry_old = carry; //@
let ghost r_old = r; //@
let ghost k = i + j; //@
proof { lemma_mulbound(self.0.0[i as int], self.0.0[j as int]); lemma_bv_get(r, k as int); } //@
let w_ =
{
let tmp =
((*r.get(i + j)) as u128) + (self.0.0[i] as u128 * self.0.0[j] as u128) +
(carry as u128);
proof { lemma_split(tmp); } //@
carry = #[verifier::truncate] ((tmp >> 64) as u64);
#[verifier::truncate] (tmp as u64)
};
r.set(i + j, w_);
proof { //@
    lemma_bv_set(r_old, r, k as int, w_); //@
    let ro = bv(r_old); //@
    assert(pre(bv(r), k as int) == pre(ro, k as int)) by { lemma_pre_ext(bv(r), ro, k as int); } //@
    assert(pre(r0, k + 1) == pre(r0, k as int) + r0[k as int] as nat * pw(k as int)); //@
    assert(pw(k + 1) == B() * pw(k as int)); //@
    assert(pw(i + j) == pw(i as int) * pw(j as int)) by { lemma_pw_add(i as int, j as int); } //@
    let P = pw(k as int) as int; let x = ro[k as int] as int; let mm = (a[i as int] as int) * (a[j as int] as int); //@
    let b = B() as int; let cn = carry as int; let co = carry_old as int; let w = w_ as int; //@
    assert(w * P + cn * (b * P) == (x + mm + co) * P) by (nonlinear_arith) //@
        requires x + mm + co == cn * b + w; //@
    assert((x + mm + co) * P == x * P + mm * P + co * P) by (nonlinear_arith); //@
    let ai = a[i as int] as int; let pi = pw(i as int) as int; let aj = a[j as int] as int; let pj = pw(j as int) as int; //@
    let lo = pre(a, j as int) as int - pre(a, i + 1) as int; //@
    assert(ai * pi * (lo + aj * pj) == ai * pi * lo + mm * P) by (nonlinear_arith) //@
        requires P == pi * pj, mm == ai * aj; //@
    assert(pre(a, j + 1) as int - pre(a, i + 1) as int == lo + aj * pj); //@
}
} //@
let ghost r_old = r; //@
proof { lemma_bv_get(r, i + 4); assert(bv(r)[i + 4] == 0); } //@
r.b1[i] = carry;
carry = 0;
proof { //@
    assert(bv(r) =~= bv(r_old).update(i + 4, r.b1[i as int])); //@
    let ro = bv(r_old); //@
    lemma_pre_ext(bv(r), ro, i + 4); //@
    lemma_tail(bv(r), i + 5, 8); //@
    lemma_tail(r0, i + 4, 8); //@
    lemma_tail(ro, i + 4, 8); //@
    assert(pre(bv(r), i + 5) == pre(bv(r), i + 4) + r.b1[i as int] as nat * pw(i + 4)); //@
    assert(od(a, i + 1) == od(a, i as int) + a[i as int] as int * pw(i as int) as int * hi_part(a, i as int)); //@
}
} //@
proof { lemma_bv_get(r, 6); lemma_bv_get(r, 7); } //@
let ghost r1 = bv(r); //@
let ghost rb = r; //@
r.b1[3] = r.b1[2] >> 63;
proof { //@
    assert(bv(r) =~= r1.update(7, r1[6] >> 63)); //@
    assert(r1[7] == 0); //@
    assert(shl1(0, r1[6]) == r1[6] >> 63) by(bit_vector); //@
} //@
for i in 2..7usize
    invariant //@
        bv(r).len() == 8, r1.len() == 8, r1[0] == 0, r1[7] == 0, //@
        forall|t: int| 0 <= t <= 8 - i ==> #[trigger] bv(r)[t] == r1[t], //@
        forall|t: int| 8 - i < t < 8 ==> #[trigger] bv(r)[t] == shl1(r1[t], r1[t - 1]), //@
{
let ghost r_old = r; //@
proof { lemma_bv_get(r, 8 - i); lemma_bv_get(r, 8 - (i + 1)); } //@
let w_ = ((*r.get(8 - i)) << 1) | ((*r.get(8 - (i + 1))) >> 63);
r.set(8 - i, w_);
proof { lemma_bv_set(r_old, r, 8 - i, w_); } //@
}
let ghost r_old = r; //@
proof { lemma_bv_get(r, 1); lemma_bv_get(r, 0); } //@
r.b0[1] = r.b0[1] << 1;
proof { //@
    assert(bv(r) =~= bv(r_old).update(1, r1[1] << 1)); //@
    assert(shl1(r1[1], 0) == r1[1] << 1) by(bit_vector); //@
    assert(forall|t: int| 1 <= t < 8 ==> #[trigger] bv(r)[t] == shl1(r1[t], r1[t - 1])); //@
    lemma_shift8(r1, bv(r)); //@
} //@
let ghost r2 = bv(r); //@
proof { assert(pre(r1, 8) as int == od(a, 3)); assert(pre(r2, 8) as int == 2 * od(a, 3)); } //@
for i in 0..4usize
    invariant //@
        pre(r2, 8) as int == 2 * od(a, 3), //@
        *self == *old(self), a == old(self).0.0@, a.len() == 4, bv(r).len() == 8, r2.len() == 8, //@
        pre(bv(r), 2 * i) as int + carry as int * pw(2 * i) as int == pre(r2, 2 * i) as int + dg(a, i as int), //@
        forall|t: int| 2 * i <= t < 8 ==> #[trigger] bv(r)[t] == r2[t], //@
{
let ai = &self.0.0[i];
let ghost c0 = carry; //@
let ghost rA = r; //@
proof { lemma_mulbound(*ai, *ai); lemma_bv_get(r, 2 * i); lemma_bv_get(r, 2 * i + 1); } //@
let w_ =
{
let tmp =
((*r.get(2 * i)) as u128) + (*ai as u128 * *ai as u128) +
(carry as u128);
proof { lemma_split(tmp); } //@
carry = #[verifier::truncate] ((tmp >> 64) as u64);
#[verifier::truncate] (tmp as u64)
};
r.set(2 * i, w_);
let ghost c1 = carry; //@
let ghost rB = r; //@
let ghost w0 = w_; //@
proof { lemma_bv_set(rA, r, 2 * i, w_); lemma_bv_get(r, 2 * i + 1); } //@
let w_ =
{
let tmp =
((*r.get(2 * i + 1)) as u128) + (0 as u128) + (carry as u128);
proof { lemma_split(tmp); } //@
carry = #[verifier::truncate] ((tmp >> 64) as u64);
#[verifier::truncate] (tmp as u64)
};
r.set(2 * i + 1, w_);
proof { //@
    lemma_bv_set(rB, r, 2 * i + 1, w_); //@
    let P = pw(2 * i) as int; //@
    lemma_pre_ext(bv(r), bv(rA), 2 * i); //@
    assert(pw(2 * i + 1) == B() * pw(2 * i)); //@
    assert(pw(2 * i + 2) == B() * pw(2 * i + 1)); //@
    assert(pre(bv(r), 2 * i + 2) == pre(bv(r), 2 * i + 1) + bv(r)[2 * i + 1] as nat * pw(2 * i + 1)); //@
    assert(pre(bv(r), 2 * i + 1) == pre(bv(r), 2 * i) + bv(r)[2 * i] as nat * pw(2 * i)); //@
    assert(pre(r2, 2 * i + 2) == pre(r2, 2 * i + 1) + r2[2 * i + 1] as nat * pw(2 * i + 1)); //@
    assert(pre(r2, 2 * i + 1) == pre(r2, 2 * i) + r2[2 * i] as nat * pw(2 * i)); //@
    assert(dg(a, i + 1) == dg(a, i as int) + a[i as int] as int * a[i as int] as int * pw(2 * i) as int); //@
    lemma_diag_step(P, r2[2 * i] as int, r2[2 * i + 1] as int, a[i as int] as int * a[i as int] as int, c0 as int, c1 as int, carry as int, w0 as int, w_ as int); //@
}
} //@
proof { //@
    lemma_square_identity(a); //@
    lemma_pre_bound(bv(r), 8); //@
    lemma_pre_bound(a, 4); //@
    lemma_pw_add(4, 4); //@
    let A = pre(a, 4) as int; let p4 = pw(4) as int; //@
    assert(A * A < p4 * p4) by(nonlinear_arith) requires 0 <= A < p4; //@
    let c = carry as int; let p8 = pw(8) as int; let v = pre(bv(r), 8) as int; //@
    assert(p8 == p4 * p4); //@
    assert(v + c * p8 == 2 * od(a, 3) + dg(a, 4)); //@
    assert(v + c * p8 == A * A); //@
    assert(0 <= v < p8); //@
    assert(c == 0) by(nonlinear_arith) requires c >= 0, p8 > 0, v >= 0, v + c * p8 < p8; //@
    assert(carry == 0); //@
    assert(c * p8 == 0) by(nonlinear_arith) requires c == 0; //@
    assert(v == A * A); //@
    assert(U(*old(self)) == pre(a, 4)); //@
    assert(pre(bv(r), 8) == U(*old(self)) * U(*old(self))); //@
} //@
let mut carry2 = 0;
let m = &modulo.0.0;
let ghost t_in = bv(r); //@
let ghost mut kacc: nat = 0; //@
proof { assert(0 * pre(m@, 4) == 0); reveal_with_fuel(pre, 1); reveal_with_fuel(pw, 5); } //@
for i in 0..4usize
    invariant //@
        mont_inv_ok(m[0], inv), bv(r).len() == 8, t_in.len() == 8, *self == *old(self), //@
        (pre(bv(r), 8) - pre(bv(r), i as int)) + carry2 as nat * pw(4 + i) == pre(t_in, 8) + kacc * pre(m@, 4), //@
        kacc < pw(i as int), //@
        carry2 <= 1, //@
{
let ghost r0 = bv(r); //@
let ghost c20 = carry2; //@
proof { lemma_bv_get(r, i as int); } //@
let k = (*r.get(i)).wrapping_mul(inv);
let mut carry = 0;
mac_discard((*r.get(i)), k, m[0], &mut carry);
proof { //@
    lemma_low_zero(r0[i as int], k, m[0], inv); //@
    reveal_with_fuel(pre, 2); reveal_with_fuel(pw, 2); //@
    assert(m@[0] as nat * pw(0) == m@[0] as nat) by(nonlinear_arith) requires pw(0) == 1; //@
    assert(pre(m@, 1) == m@[0] as nat); //@
    assert(pw(i + 1) == B() * pw(i as int)); //@
    assert(pre(r0, i + 1) - pre(r0, i as int) == r0[i as int] as nat * pw(i as int)); //@
    assert(carry as nat * (B() * pw(i as int)) == (r0[i as int] as nat) * pw(i as int) + k as nat * (m@[0] as nat) * pw(i as int)) by(nonlinear_arith) //@
        requires carry as nat * B() == r0[i as int] as nat + k as nat * (m@[0] as nat); //@
} //@
for j in 1..4usize
    invariant //@
        0 <= i < 4, 1 <= j <= 4, bv(r).len() == 8, r0.len() == 8, //@
        forall|t: int| 0 <= t <= i ==> #[trigger] bv(r)[t] == r0[t], //@
        forall|t: int| i + j <= t < 8 ==> #[trigger] bv(r)[t] == r0[t], //@
        (pre(bv(r), i + j) - pre(bv(r), i + 1)) + carry as nat * pw(i + j) //@
            == (pre(r0, i + j) - pre(r0, i as int)) + k as nat * pre(m@, j as int) * pw(i as int), //@
{
let mj = &m[j];
let ghost kk = i + j; //@
let ghost carry_old = carry; //@
let ghost r_old = r; //@
proof { lemma_mulbound(k, *mj); lemma_bv_get(r, kk as int); } //@
let w_ =
{
let tmp =
((*r.get(i + j)) as u128) + (k as u128 * *mj as u128) +
(carry as u128);
proof { lemma_split(tmp); } //@
carry = #[verifier::truncate] ((tmp >> 64) as u64);
#[verifier::truncate] (tmp as u64)
};
r.set(i + j, w_);
proof { //@
    lemma_bv_set(r_old, r, kk as int, w_); //@
    let ro = bv(r_old); //@
    lemma_pre_range(bv(r), ro, i + 1, kk as int); //@
    lemma_pw_add(i as int, j as int); //@
    let P = pw(kk as int); let x = ro[kk as int] as nat; let mm = (k as nat) * (m@[j as int] as nat); //@
    assert(pw(kk + 1) == B() * P); //@
    assert(w_ as nat * P + (carry as nat) * (B() * P) == (x + mm + carry_old as nat) * P) by (nonlinear_arith) //@
        requires x + mm + carry_old as nat == (carry as nat) * B() + w_ as nat; //@
    assert((x + mm + carry_old as nat) * P == x * P + mm * P + carry_old as nat * P) by (nonlinear_arith); //@
    assert(k as nat * pre(m@, j + 1) * pw(i as int) == k as nat * pre(m@, j as int) * pw(i as int) + mm * P) by (nonlinear_arith) //@
        requires pre(m@, j + 1) == pre(m@, j as int) + m@[j as int] as nat * pw(j as int), P == pw(i as int) * pw(j as int), mm == (k as nat) * (m@[j as int] as nat); //@
}
} //@
let ghost r_mid = r; //@
proof { lemma_bv_get(r, i + 4); } //@
let w_ =
{
let tmp =
(r.b1[i] as u128) + (carry as u128) + (carry2 as u128);
proof { lemma_split(tmp); } //@
carry2 = #[verifier::truncate] ((tmp >> 64) as u64);
proof { assert(carry2 <= 1) by(bit_vector) requires carry2 == (tmp >> 64) as u64, tmp <= 0x1_ffff_ffff_ffff_fffeu128 + 1; } //@
#[verifier::truncate] (tmp as u64)
};
r.b1[i] = w_;
proof { //@
    assert(bv(r) =~= bv(r_mid).update(i + 4, w_)); //@
    kacc = kacc + k as nat * pw(i as int); //@
    lemma_reduce_round(r0, bv(r_mid), bv(r), t_in, m@, i as int, k, carry, c20, carry2, (kacc - k as nat * pw(i as int)) as nat); //@
}
} //@
let ghost self0 = *old(self); //@
self.0.0 = r.b1;
proof { //@
    let hi = *self; //@
    lemma_hi_part(bv(r), r.b1@); //@
    assert(pw(8) == pw(4) * pw(4)) by { lemma_pw_add(4, 4); } //@
    assert((U(hi) + (if carry2 != 0 { pw(4) } else { 0 })) * pw(4) == U(hi) * pw(4) + carry2 as nat * (pw(4) * pw(4))) by(nonlinear_arith) //@
        requires carry2 <= 1; //@
    assert(mont_rel(kacc, hi, carry2 != 0, self0, self0, *modulo)); //@
    lemma_mont_bound(U(hi), carry2 != 0, U(self0), U(self0), U(*modulo), kacc); //@
} //@
let ghost hi0 = *self; //@
self.subtract_modulus_with_carry(modulo, carry2 != 0);
proof { //@
    lemma_mont_final(U(*self), U(hi0), carry2 != 0, U(self0), U(self0), U(*modulo), kacc); //@
}
} //@
//@END


} //@

// vacuity guard: the preconditions of square are satisfiable (a concrete call verifies)
pub fn witness_square_precondition() //@
{ //@
    let mut a = U256(B256([5, 0, 0, 0])); //@
    let m = U256(B256([1, 0, 0, 1])); //@
    proof { //@
        reveal_with_fuel(pre, 5); reveal_with_fuel(pw, 5); //@
        assert((1 as nat * 0xffff_ffff_ffff_ffff as nat + 1) % B() == 0) by(compute_only); //@
        let sa = a.0.0@; let sm = m.0.0@; //@
        assert(sa[0] == 5 && sa[1] == 0 && sa[2] == 0 && sa[3] == 0); //@
        assert(sm[0] == 1 && sm[1] == 0 && sm[2] == 0 && sm[3] == 1); //@
        assert(pre(sa, 4) == 5) by { assert(pre(sa, 1) == 5nat * pw(0)); assert(0 * pw(1) == 0 && 0 * pw(2) == 0 && 0 * pw(3) == 0); } //@
        assert(pre(sm, 4) >= 1) by { assert(pre(sm, 1) == 1nat * pw(0)); } //@
        assert(U(a) == 5 && U(m) >= 1); //@
        assert(pw(4) >= 1000); //@
        assert(5 * 5 < pw(4) * U(m)) by(nonlinear_arith) requires pw(4) >= 1000, U(m) >= 1; //@
    } //@
    a.square(&m, 0xffff_ffff_ffff_ffff); //@
} //@
} //@

