#!/usr/bin/env python3
"""E1 driver: extract the current text of the limb-layer functions, check that the annotated files are that text plus
annotation lines only (erasure), run Verus, and report one obligation per verified function."""
import os, re, sys, json, subprocess, tempfile, time, shutil
HERE = os.path.dirname(os.path.abspath(__file__))
sys.path.insert(0, HERE)
import extract

def consts_block(P='FQ'):
    """R5: lazy_static moduli as constants with the literals of the current source"""
    sys.path.insert(0, os.path.join(HERE, '..', 'mirvc'))
    import consts
    K = consts.parse_consts(os.environ.get('SM9_REPO', '/repo'))
    def arr(n):
        return '[' + ', '.join('0x%016X' % ((n >> (64 * i)) & 0xFFFFFFFFFFFFFFFF) for i in range(4)) + ']'
    q = K[P]
    R_ = 1 << 256
    rinv = pow(R_, -1, q) if q % 2 == 1 else 0
    extra = ('pub const FQ_SQUARED_C: [u64; 4] = %s;\npub const FQ_ONE_C: [u64; 4] = %s;\n' % (arr(K[P + '_SQUARED']), arr(K[P + '_ONE'])) +
             'pub open spec fn RINV() -> nat { 0x%Xnat }\npub open spec fn QLIT() -> nat { 0x%Xnat }\n' % (rinv, q) +
             'pub proof fn lemma_rinv_gen()\n    ensures (0x1_0000_0000_0000_0000_0000_0000_0000_0000_0000_0000_0000_0000_0000_0000_0000_0000nat * RINV()) %% QLIT() == 1, RINV() < QLIT(),\n{\n'
             '    assert((0x1_0000_0000_0000_0000_0000_0000_0000_0000_0000_0000_0000_0000_0000_0000_0000_0000nat * 0x%Xnat) %% 0x%Xnat == 1) by(compute_only);\n}\n' % (rinv, q) +
             'pub open spec fn R2LIT() -> nat { 0x%Xnat }\npub open spec fn ONELIT() -> nat { 0x%Xnat }\n' % (K[P + '_SQUARED'], K[P + '_ONE']) +
             'pub proof fn lemma_r2_gen()\n    ensures R2LIT() == (0x1_0000_0000_0000_0000_0000_0000_0000_0000_0000_0000_0000_0000_0000_0000_0000_0000nat * 0x1_0000_0000_0000_0000_0000_0000_0000_0000_0000_0000_0000_0000_0000_0000_0000_0000nat) %% QLIT(),\n'
             '            ONELIT() == 0x1_0000_0000_0000_0000_0000_0000_0000_0000_0000_0000_0000_0000_0000_0000_0000_0000nat %% QLIT(),\n{\n'
             '    assert(0x%Xnat == (0x1_0000_0000_0000_0000_0000_0000_0000_0000_0000_0000_0000_0000_0000_0000_0000_0000nat * 0x1_0000_0000_0000_0000_0000_0000_0000_0000_0000_0000_0000_0000_0000_0000_0000_0000nat) %% 0x%Xnat) by(compute_only);\n'
             '    assert(0x%Xnat == 0x1_0000_0000_0000_0000_0000_0000_0000_0000_0000_0000_0000_0000_0000_0000_0000_0000nat %% 0x%Xnat) by(compute_only);\n}\n' % (K[P + '_SQUARED'], q, K[P + '_ONE'], q) +
             'pub proof fn lemma_lits_gen()\n    ensures FQ_SQUARED_C@.len() == 4, FQ_ONE_C@.len() == 4, ' +
             ', '.join('FQ_SQUARED_C@[%d] == 0x%016Xu64' % (i, (K[P + '_SQUARED'] >> (64 * i)) & 0xFFFFFFFFFFFFFFFF) for i in range(4)) + ', ' +
             ', '.join('FQ_ONE_C@[%d] == 0x%016Xu64' % (i, (K[P + '_ONE'] >> (64 * i)) & 0xFFFFFFFFFFFFFFFF) for i in range(4)) + ',\n{\n}\n')
    L = [(K[P] >> (64 * i)) & 0xFFFFFFFFFFFFFFFF for i in range(4)]
    text = ('verus! {\npub const FQ_C: [u64; 4] = %s;\npub const FQ_INV_C: u64 = 0x%016X;\n' % (arr(K[P]), K[P + '_INV']) +
            'pub proof fn lemma_consts_gen()\n    ensures FQ_C@[0] == 0x%016Xu64, FQ_C@[1] == 0x%016Xu64, FQ_C@[2] == 0x%016Xu64, FQ_C@[3] == 0x%016Xu64, FQ_C@.len() == 4,\n'
            '            (0x%016Xnat * 0x%016Xnat + 1) %% 0x1_0000_0000_0000_0000nat == 0,\n{\n'
            '    assert((0x%016Xnat * 0x%016Xnat + 1) %% 0x1_0000_0000_0000_0000nat == 0) by(compute_only);\n}\n'
            % (L[0], L[1], L[2], L[3], L[0], K[P + '_INV'], L[0], K[P + '_INV']) + extra + '}\n')
    return text.replace('FQ_', P + '_')

UNITS = {
    # unit -> (annotated file, [(function marker, header regex in the expanded text, rewriter)])
    'mul': ('mul.rs', [('mul_without_cond_subtract', r'fn mul_without_cond_subtract\(', extract.rewrite_mul),
                       ('subtract_modulus_with_carry', r'pub\(crate\) fn subtract_modulus_with_carry\(', extract.rewrite_small),
                       ('mul', r'pub fn mul\(&mut self, other: &U256, modulo: &U256, inv: u64\)', extract.rewrite_small)]),
    'sop': ('sop.rs', [('adc', r'pub const fn adc\(', extract.rewrite_arith),
                       ('mac', r'pub const fn mac\(', extract.rewrite_arith),
                       ('add_carry', r'pub\(crate\) fn add_carry\(', extract.rewrite_while),
                       ('sum_of_products', r'pub\(crate\) fn sum_of_products<const T\s*:\s*usize>', extract.rewrite_sop)]),
    'fp': ('fp.rs', [('u256_is_zero', r'pub fn is_zero\(&self\) -> bool \{ self\.0\.is_zero\(\) \}', extract.rewrite_fp),
                     ('u256_add', r'pub fn add\(&mut self, other: &U256, modulo: &U256\)', extract.rewrite_fp),
                     ('u256_sub', r'pub fn sub\(&mut self, other: &U256, modulo: &U256\)', extract.rewrite_fp),
                     ('u256_neg', r'pub fn neg\(&mut self, modulo: &U256\)', extract.rewrite_fp),
                     ('u256_mul2', r'pub fn mul2\(&mut self, modulo: &U256\)', extract.rewrite_fp),
                     ('fq_into_u256', r'fn from\(mut a: Fq\) -> Self', extract.rewrite_fp),
                     ('fq_new', r'pub fn new\(mut a: U256\) -> Option<Self> \{\s*if a < \*FQ', extract.rewrite_fp),
                     ('fq_new_mul_factor', r'pub fn new_mul_factor\(mut a: U256\) -> Self \{\s*a\.mul\(&FQ_SQUARED', extract.rewrite_fp),
                     ('fq_add_inplace', r'pub fn add_inplace\(&self, other: &Fq\) -> Fq', extract.rewrite_fp),
                     ('fq_sub_inplace', r'pub fn sub_inplace\(&self, other: &Fq\) -> Fq', extract.rewrite_fp),
                     ('fq_mul_inplace', r'pub fn mul_inplace\(&self, other: &Fq\) -> Fq', extract.rewrite_fp),
                     ('fq_squared', r'fn squared\(&self\) -> Self \{\s*let mut a = self\.0;\s*a\.square\(&FQ,', extract.rewrite_fp),
                     ('fq_neg_inplace', r'pub fn neg_inplace\(&self\) -> Fq \{\s*let mut a = self\.0;\s*a\.neg\(&FQ\)', extract.rewrite_fp),
                     ('fq_double', r'fn double\(&self\) -> Self \{\s*let mut a = self\.0;\s*a\.mul2\(&FQ\)', extract.rewrite_fp)]),
}

UNITS['square'] = ('square.rs', [('square', r'pub fn square\(&mut self, modulo: &U256, inv: u64\)', extract.rewrite_square)])
UNITS['inv'] = ('inv.rs', [('set_bit', r'pub fn set_bit\(&mut self, n: usize, to: bool\) -> bool', extract.rewrite_inv),
                          ('is_one', (r'\bimpl U256 \{', r'pub fn is_one\(&self\) -> bool'), extract.rewrite_inv),
                          ('is_even', (r'\bimpl U256 \{', r'pub fn is_even\(&self\) -> bool'), extract.rewrite_inv),
                          ('div2', r'pub fn div2\(&mut self, modulo: &U256\)', extract.rewrite_inv),
                          ('invert', r'pub fn invert\(&mut self, modulo: &U256, rsquared: &U256\)', extract.rewrite_inv),
                          ('fq_div2', (r'impl Fq \{', r'pub fn div2\(mut self\) -> Self'), extract.rewrite_inv),
                          ('fq_is_zero', r'fn is_zero\(&self\) -> bool \{ self\.0\.is_zero\(\) \}\s*\}\s*impl One for Fq', extract.rewrite_inv),
                          ('fq_inverse', r'fn inverse\(&self\) -> Option<Self> \{\s*if self\.is_zero\(\) \{\s*None\s*\} else \{\s*let mut a = self\.0;\s*a\.invert\(&FQ,', extract.rewrite_inv)])
UNITS['divrem'] = ('divrem.rs', [('bit_length', r'pub fn bit_length\(&self\) -> usize', extract.rewrite_divrem),
                                ('divrem', r'pub fn divrem\(&self, modulo: &U256\) -> \(Option<U256>, U256\)', extract.rewrite_divrem),
                                ('u256_get_bit', (r'\bimpl U256 \{', r'pub fn get_bit\(&self, n: usize\) -> Option<bool>'), extract.rewrite_inv),
                                ('u256_bits', (r'\bimpl U256 \{', r'pub fn bits\(&self\) -> BitIterator'), extract.rewrite_inv),
                                ('bititer_next', (r"impl<'a> Iterator for BitIterator<'a>", r'fn next\(&mut self\) -> Option<bool>'), extract.rewrite_inv)])
_FR = [('u256_is_zero', None), ('u256_add', None), ('u256_sub', None), ('u256_neg', None), ('u256_mul2', None),
       ('fq_into_u256', r'fn from\(mut a: Fr\) -> Self'),
       ('fq_new', r'pub fn new\(mut a: U256\) -> Option<Self> \{\s*if a < \*FR'),
       ('fq_new_mul_factor', r'pub fn new_mul_factor\(mut a: U256\) -> Self \{\s*a\.mul\(&FR_SQUARED'),
       ('fq_add_inplace', r'pub fn add_inplace\(&self, other: &Fr\) -> Fr'),
       ('fq_sub_inplace', r'pub fn sub_inplace\(&self, other: &Fr\) -> Fr'),
       ('fq_mul_inplace', r'pub fn mul_inplace\(&self, other: &Fr\) -> Fr'),
       ('fq_squared', r'fn squared\(&self\) -> Self \{\s*let mut a = self\.0;\s*a\.square\(&FR,'),
       ('fq_neg_inplace', r'pub fn neg_inplace\(&self\) -> Fr \{\s*let mut a = self\.0;\s*a\.neg\(&FR\)'),
       ('fq_double', r'fn double\(&self\) -> Self \{\s*let mut a = self\.0;\s*a\.mul2\(&FR\)')]
# 'fpr': the Fr instance of the field_impl! macro: the same annotation text with Fq -> Fr / FQ -> FR and the constants of r
UNITS['fpr'] = ('fp.rs', [(m, h or dict((a, b) for a, b, _ in UNITS['fp'][1])[m], extract.rewrite_fp) for m, h in _FR])
UNITS['invr'] = ('inv.rs', [(m, {'fq_is_zero': r'fn is_zero\(&self\) -> bool \{ self\.0\.is_zero\(\) \}\s*\}\s*impl One for Fr',
                                   'fq_inverse': r'fn inverse\(&self\) -> Option<Self> \{\s*if self\.is_zero\(\) \{\s*None\s*\} else \{\s*let mut a = self\.0;\s*a\.invert\(&FR,'}.get(m, h), rw)
                            for m, h, rw in UNITS['inv'][1] if m != 'fq_div2'])
VARIANT = {'fpr': dict(subst=[('Fq', 'Fr'), ('FQ', 'FR'), ('fqv', 'frv')], drop=['sum_of_products'], drop_fns=[r'(?:pub )?fn witness_sop_precondition\('], prefix='FR')}
VARIANT['invr'] = dict(VARIANT['fpr'], drop=['sum_of_products', 'fq_div2'])   # Fq::div2 exists only for Fq

DEPENDS = {'divrem': ['mul', 'square', 'sop', 'fp', 'inv'], 'inv': ['mul', 'square', 'sop', 'fp'], 'invr': ['mul', 'square', 'sop', 'fpr'], 'square': ['mul'], 'sop': ['mul'], 'fp': ['mul', 'square', 'sop'], 'fpr': ['mul', 'square', 'sop']}

def alpha_map(base, cur):
    """if cur is base with identifiers consistently (bijectively) renamed, the renaming {old: new}; else None"""
    tb = re.findall(r'\w+|[^\w\s]', base)
    tc = re.findall(r'\w+|[^\w\s]', cur)
    if len(tb) != len(tc):
        return None
    fwd, bwd = {}, {}
    for a, b in zip(tb, tc):
        if a == b and a not in fwd and b not in bwd:
            fwd[a] = b; bwd[b] = a
            continue
        if not (re.match(r'^[A-Za-z_]\w*$', a) and re.match(r'^[A-Za-z_]\w*$', b)):
            if a != b:
                return None
            continue
        if fwd.get(a, b) != b or bwd.get(b, a) != a:
            return None
        fwd[a] = b; bwd[b] = a
    ren = {a: b for a, b in fwd.items() if a != b}
    # only plain local names may change (never types, functions, fields, keywords: those would not compile or be another program)
    if not ren or any(a[0].isupper() or b[0].isupper() for a, b in ren.items()):
        return None
    return ren

def erase(annot_text, marker):
    """the executable lines of the region //@BEGIN marker .. //@END (annotation-only lines end with //@)"""
    m = re.search(r'^//@BEGIN %s\n(.*?)^//@END' % re.escape(marker), annot_text, re.S | re.M)
    if not m:
        return None
    out = []
    for ln in m.group(1).split('\n'):
        t = ln.rstrip()
        mr = re.search(r'//@RET (.*)$', t)
        if mr:
            # return binder: `-> (res: T) //@RET T`  erases to  `-> T`
            t = re.sub(r'-> \(\w+: .*\)\s*//@RET .*$', '-> ' + mr.group(1), t)
            out.append(t)
            continue
        if t.endswith('//@'):
            continue
        out.append(t)
    return extract.tidy('\n'.join(out))

def splice(annot_text, marker, merged_region):
    return re.sub(r'(^//@BEGIN %s\n)(.*?)(^//@END)' % re.escape(marker), lambda m: m.group(1) + merged_region + m.group(3), annot_text, flags=re.S | re.M)

def region(annot_text, marker):
    m = re.search(r'^//@BEGIN %s\n(.*?)^//@END' % re.escape(marker), annot_text, re.S | re.M)
    return m.group(1) if m else None

def run_unit(unit, expanded_text, workdir):
    """returns dict(status, functions: [...], detail, seconds, erasure: 'identical'|'merged'|...)"""
    afile, fns = UNITS[unit]
    annot = open(os.path.join(HERE, 'annot', afile)).read()
    for dep in DEPENDS.get(unit, []):
        dfile, dfns = UNITS[dep]
        annot = open(os.path.join(HERE, 'annot', dfile)).read() + annot
        fns = list(dfns) + list(fns)
    var = VARIANT.get(unit)
    if var:
        for marker in var['drop']:
            annot = re.sub(r'^//@BEGIN %s\n.*?^//@END\n' % re.escape(marker), '', annot, flags=re.S | re.M)
            fns = [f for f in fns if f[0] != marker]
        for hdr in var.get('drop_fns', []):
            t = extract.find_fn(annot, hdr)
            if t:
                annot = annot.replace(t, '')
        for a, b in var['subst']:
            annot = annot.replace(a, b)
    notes = []
    erasure = 'identical'
    for marker, header, rewriter in fns:
        src = extract.find_fn(expanded_text, header)
        if src is None:
            return dict(status='undecided', detail='function %s not found in the expanded source (lost anchor)' % marker, erasure='lost', seconds=0, verified=0, errors=[])
        log = []
        try:
            cur = extract.desugar_continue(extract.tidy(rewriter(src, log)), log)
        except Exception as e:
            return dict(status='undecided', detail='rewrite rules not applicable to %s: %r' % (marker, e), erasure='lost', seconds=0, verified=0, errors=[])
        base = erase(annot, marker)
        if base is None:
            return dict(status='undecided', detail='annotated region %s missing' % marker, erasure='lost', seconds=0, verified=0, errors=[])
        notes.append('%s: rules %s' % (marker, ' '.join('%s' % (r[0],) for r in log)))
        if base != cur:
            # (a) a consistent renaming of local identifiers: rename them in the annotation lines as well
            ren = alpha_map(base, cur)
            if ren:
                reg = region(annot, marker)
                for a, b in ren.items():
                    reg = re.sub(r'\b%s\b' % re.escape(a), '\0' + b + '\0', reg)
                reg = reg.replace('\0', '')
                annot2 = splice(annot, marker, reg)
                if erase(annot2, marker) == cur:
                    annot = annot2
                    base = cur
                    erasure = 'renamed'
                    notes.append('%s: locals renamed %s' % (marker, ' '.join('%s->%s' % kv for kv in sorted(ren.items()))))
        if base != cur:
            # (b) the code changed: re-attach the annotation lines to the new text.  Annotation blocks are anchored to the
            # executable line that follows them; unchanged lines keep their block, a block whose anchor line was edited is
            # placed before the replacement (Verus then decides whether the proof still goes through).
            erasure = 'merged'
            import difflib
            blocks = []          # (anchor index in base lines, [annotation lines])
            base_lines = base.rstrip('\n').split('\n')
            cur_lines = cur.rstrip('\n').split('\n')
            pend = []
            exec_idx = 0
            retline = None
            for ln in region(annot, marker).split('\n'):
                t = ln.rstrip()
                if '//@RET' in t:
                    retline = t
                    blocks.append((exec_idx, pend)); pend = []
                    exec_idx += 1
                    continue
                if t.endswith('//@'):
                    pend.append(t)
                    continue
                if not t.strip():
                    continue
                blocks.append((exec_idx, pend)); pend = []
                exec_idx += 1
            tail = pend
            if exec_idx != len(base_lines):
                return dict(status='undecided', detail='annotation anchors of %s inconsistent' % marker, erasure='conflict', seconds=0, verified=0, errors=[], notes=notes)
            sm = difflib.SequenceMatcher(None, base_lines, cur_lines, autojunk=False)
            out = []
            plain_ret = None
            if retline:
                plain_ret = ' '.join(re.sub(r'-> \(\w+: .*\)\s*//@RET (.*)$', r'-> \1', retline).split())
            def emit(line):
                if plain_ret is not None and line == plain_ret:
                    out.append(retline)
                else:
                    out.append(line)
            for tag, i1, i2, j1, j2 in sm.get_opcodes():
                if tag == 'equal':
                    for k in range(i2 - i1):
                        out.extend(blocks[i1 + k][1])
                        emit(cur_lines[j1 + k])
                else:
                    # all annotation blocks of the replaced lines go first, then the new lines
                    for k in range(i1, i2):
                        out.extend(blocks[k][1])
                    for k in range(j1, j2):
                        emit(cur_lines[k])
            out.extend(tail)
            annot = splice(annot, marker, '\n'.join(out) + '\n')
            if erase(annot, marker) != cur:
                return dict(status='undecided', detail='re-attached annotation of %s does not erase to the current code' % marker, erasure='conflict', seconds=0, verified=0, errors=[], notes=notes)
    prelude = open(os.path.join(HERE, 'annot', 'prelude.rs')).read()
    full = os.path.join(workdir, unit + '_full.rs')
    open(full, 'w').write(prelude + consts_block(var['prefix'] if var else 'FQ') + annot + '\nfn main() {}\n')
    t0 = time.time()
    p = subprocess.run(['verus', full, '--output-json', '--time', '--rlimit', '60'], capture_output=True, text=True, timeout=1200)
    secs = time.time() - t0
    verified, errors = None, None
    try:
        j = json.loads(p.stdout[p.stdout.index('{'):])
        vr = j.get('verification-results', {})
        verified, errors = vr.get('verified'), vr.get('errors')
        smt = j.get('times-ms', {}).get('smt', {}).get('total', None)
    except Exception:
        j = {}
        smt = None
    errs = []
    for m in re.finditer(r'^error(?:\[\w+\])?: (.*)\n\s*--> [^:]+:(\d+):\d+', p.stderr, re.M):
        errs.append((m.group(1), int(m.group(2))))
    if verified is None:
        return dict(status='undecided', detail='verus produced no result: ' + p.stderr[-600:], erasure=erasure, seconds=secs, verified=0, errors=[], notes=notes)
    # classify: resource-outs are undecided, definite failures are failed obligations
    resource = [e for e in errs if 'rlimit' in e[0] or 'timeout' in e[0] or 'resource' in e[0].lower()]
    unsupported = [e for e in errs if 'not yet support' in e[0] or 'unsupported' in e[0].lower() or 'cannot find' in e[0] or 'mismatched types' in e[0] or 'expected' in e[0]]
    lines = open(full).read().split('\n')
    def enclosing(ln):
        # the region marker (unique) when the line lies inside //@BEGIN marker .. //@END, else the enclosing fn item
        fn = None
        for k in range(min(ln, len(lines)) - 1, -1, -1):
            if lines[k].startswith('//@END'):
                break
            mb = re.match(r'^//@BEGIN (\w+)', lines[k])
            if mb:
                return mb.group(1)
            if fn is None:
                mm = re.match(r'^\s*(?:pub )?(?:open spec |closed spec |proof |const )?fn (\w+)', lines[k])
                if mm:
                    fn = mm.group(1)
        return fn or '?'
    detail = '; '.join('%s in fn %s (line %d)' % (e[0], enclosing(e[1]), e[1]) for e in errs[:5])
    if errors == 0 and not errs and verified and verified > 0 and p.returncode == 0:
        status = 'discharged'
    elif errors == 0 and not errs:
        status = 'undecided'
        detail = 'verus did not verify anything: ' + p.stderr[-500:].replace('\n', ' | ')
    elif unsupported or (errors == 0 and errs):
        status = 'undecided'
    elif resource and len(resource) == len(errs):
        status = 'undecided'
    else:
        status = 'failed'
    return dict(status=status, detail=detail, erasure=erasure, seconds=round(secs, 2), smt_ms=smt, verified=verified, errors=[('%s in fn %s' % (e[0], enclosing(e[1]))) for e in errs],
                notes=notes, functions=[f[0] for f in fns])

if __name__ == '__main__':
    exp = open(sys.argv[1]).read()
    wd = tempfile.mkdtemp(prefix='sm9v_verus_')
    try:
        for u in (sys.argv[2:] or UNITS):
            print(u, json.dumps(run_unit(u, exp, wd), indent=1))
    finally:
        shutil.rmtree(wd, ignore_errors=True)
