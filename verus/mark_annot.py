#!/usr/bin/env python3
"""authoring helper: given a development file whose region //@BEGIN f .. //@END contains the extracted text of f (cur) interleaved
with annotation lines, append the marker `//@` to every annotation line (lines that are not the next executable line of cur)."""
import re, sys
sys.path.insert(0, __import__('os').path.dirname(__import__('os').path.abspath(__file__)))

def norm(l):
    return ' '.join(l.split())

def mark_region(region_text, cur_text):
    cur = [norm(l) for l in cur_text.strip('\n').split('\n')]
    out = []
    k = 0
    for ln in region_text.split('\n'):
        t = ln.rstrip()
        if not t.strip():
            out.append(t)
            continue
        body = re.sub(r'\s*//@$', '', t)
        if '//@RET' in t:
            out.append(t)
            k += 1
            continue
        # return-binder line: `-> (res: T)` matches `-> T`
        cand = norm(body)
        if k < len(cur):
            if cand == cur[k]:
                out.append(body)
                k += 1
                continue
            m = re.search(r'-> \((\w+): (.*)\)$', cand)
            if m and norm(re.sub(r'-> \(\w+: (.*)\)$', r'-> \1', cand)) == cur[k]:
                out.append(body + ' //@RET ' + m.group(2))
                k += 1
                continue
        out.append(body + ' //@')
    if k != len(cur):
        raise SystemExit('region does not contain the extracted text in order: stopped at cur line %d: %r' % (k, cur[k] if k < len(cur) else None))
    return '\n'.join(out)

def mark_file(dev_text, curs):
    """curs: dict marker -> cur text.  Lines outside regions are all annotation lines."""
    out = []
    pos = 0
    for m in re.finditer(r'^//@BEGIN (\w+)\n(.*?)^//@END', dev_text, re.S | re.M):
        for ln in dev_text[pos:m.start()].split('\n'):
            t = ln.rstrip()
            out.append(t if (not t.strip() or t.endswith('//@') or t.startswith('//')) else t + ' //@')
        out.append('//@BEGIN ' + m.group(1))
        out.append(mark_region(m.group(2).rstrip('\n'), curs[m.group(1)]))
        out.append('//@END')
        pos = m.end()
    for ln in dev_text[pos:].split('\n'):
        t = ln.rstrip()
        out.append(t if (not t.strip() or t.endswith('//@') or t.startswith('//')) else t + ' //@')
    return '\n'.join(out) + '\n'
