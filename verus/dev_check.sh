#!/bin/sh
# usage: [INSTALL=1] dev_check.sh <unit> [function ...]  -- re-mark the dev file and verify (selected functions of) the assembled unit;
# without INSTALL=1 nothing under verus/annot is touched (the checks' cache key covers verus/annot but not verus/dev)
cd /verif/verus && python3 - "$1" <<'PY'
import sys, os
sys.path.insert(0,'/verif/verus')
import extract, mark_annot, run
unit=sys.argv[1]
exp=open('/tmp/scr/expanded.rs').read()
curs={}
for marker, header, rw in run.UNITS[unit][1]:
    curs[marker]=extract.tidy(rw(extract.find_fn(exp,header),[]))
dev=open('dev/%s_dev.rs'%unit).read()
import os
marked=mark_annot.mark_file(dev,curs)
if os.environ.get('INSTALL'):
    open('annot/'+run.UNITS[unit][0],'w').write(marked)   # INSTALL=1: update the annotated file used by the checks
parts=[open('annot/prelude.rs').read(), run.consts_block()]
for d in run.DEPENDS.get(unit,[]):
    parts.append(open('annot/'+run.UNITS[d][0]).read())
parts.append(marked)
open('/tmp/vtest/%s_full.rs'%unit,'w').write(''.join(parts)+'\nfn main() {}\n')
PY
u=$1; shift
cd /tmp/vtest
if [ $# -eq 0 ]; then /usr/bin/time -f "all %es" timeout 900 verus ${u}_full.rs --rlimit 60 2>&1 | grep -E "verification results|^error|^ *[0-9]+ \||all [0-9.]+s" | head -60
else for fn in "$@"; do /usr/bin/time -f "$fn %es" timeout 600 verus ${u}_full.rs --verify-function $fn --verify-root --rlimit 60 2>&1 | grep -E "verification results|^error|^ *[0-9]+ \||^[a-z_0-9]+ [0-9.]+s" | head -30; done; fi
