"""Big-integer reference semantics of the properties (replay oracle and counterexample search only;
never the source of a pass).  Written from the property statements / the SM9 standard, not from the code."""
import sys, os
sys.path.insert(0, os.path.join(os.path.dirname(os.path.abspath(__file__)), '..', 'mirvc'))
from tower import Algebra, ModLeaf, mk, is_struct, pow_num, BELOW, ARITY

Q = 0xB640000002A3A6F1D603AB4FF58EC74521F2934B1A7AEEDBE56F9B27E351457D
R_ORDER = 0xB640000002A3A6F1D603AB4FF58EC74449F2934B18EA8BEEE56EE19CD69ECF25
RR = 1 << 256
T_PARAM = 0x600000000058F98A
assert Q == 36 * T_PARAM**4 + 36 * T_PARAM**3 + 24 * T_PARAM**2 + 6 * T_PARAM + 1
assert R_ORDER == 36 * T_PARAM**4 + 36 * T_PARAM**3 + 18 * T_PARAM**2 + 6 * T_PARAM + 1

NUM = Algebra(ModLeaf(Q))

def mont(v, p):
    return v * RR % p

def unmont(m, p):
    return m * pow(RR, -1, p) % p

def be(n, l=32):
    return int(n).to_bytes(l, 'big')

def hx(n, l=32):
    return be(n, l).hex()

# ---- (de)serialisation in the hook layout: stored Montgomery limbs
def fq_dec(b):
    return unmont(int.from_bytes(b, 'big'), Q)

def fq_enc(v):
    return be(mont(v % Q, Q))

def tw_dec(ty, b):
    if ty == 'Fq':
        return fq_dec(b)
    n = ARITY[ty]
    l = len(b) // n
    return mk(ty, [tw_dec(BELOW[ty], b[i * l:(i + 1) * l]) for i in range(n)])

def tw_enc(ty, v):
    if ty == 'Fq':
        return fq_enc(v)
    return b''.join(tw_enc(BELOW[ty], c) for c in v[2])

def tw_rand(ty, rnd):
    if ty == 'Fq':
        return rnd.randrange(Q)
    return mk(ty, [tw_rand(BELOW[ty], rnd) for _ in range(ARITY[ty])])

def tw_zero(ty):
    if ty == 'Fq':
        return 0
    return mk(ty, [tw_zero(BELOW[ty]) for _ in range(ARITY[ty])])

def tw_one(ty):
    if ty == 'Fq':
        return 1
    cs = [tw_zero(BELOW[ty]) for _ in range(ARITY[ty])]
    cs[0] = tw_one(BELOW[ty])
    return mk(ty, cs)

def tw_is_zero(v):
    return all(x == 0 for x in NUM.leaves(v))

def tw_inv(ty, x):
    """x^{-1} by the norm / adjugate formulas of the quadratic and cubic extensions (textbook)"""
    A = NUM
    if ty == 'Fq':
        return pow(x, -1, Q)
    below = BELOW[ty]
    cs = x[2]
    M = lambda p, q: A.mul(below, p, q)
    NR = lambda p: A.nonresidue_times(below, p)
    if ARITY[ty] == 2:
        n = A.sub(below, M(cs[0], cs[0]), NR(M(cs[1], cs[1])))
        ni = tw_inv(below, n)
        return mk(ty, [M(cs[0], ni), A.neg(below, M(cs[1], ni))])
    t0 = A.sub(below, M(cs[0], cs[0]), NR(M(cs[1], cs[2])))
    t1 = A.sub(below, NR(M(cs[2], cs[2])), M(cs[0], cs[1]))
    t2 = A.sub(below, M(cs[1], cs[1]), M(cs[0], cs[2]))
    n = A.add(below, M(cs[0], t0), NR(A.add(below, M(cs[2], t1), M(cs[1], t2))))
    ni = tw_inv(below, n)
    return mk(ty, [M(t0, ni), M(t1, ni), M(t2, ni)])

def tw_frob(ty, x, k):
    return pow_num(NUM, ty, x, Q**k) if ty != 'Fq' else x

# ---- square roots in Fq
def fq_is_square(a):
    return a % Q == 0 or pow(a, (Q - 1) // 2, Q) == 1

def fq_sqrt(a):
    a %= Q
    if a == 0:
        return 0
    if not fq_is_square(a):
        return None
    # q = 5 mod 8 (Atkin)
    assert Q % 8 == 5
    v = pow(2 * a, (Q - 5) // 8, Q)
    i = 2 * a * v * v % Q
    s = a * v * (i - 1) % Q
    assert s * s % Q == a
    return s

def fq2_is_square(x):
    # x is a square in Fq2 iff norm(x) is a square in Fq
    c0, c1 = x[2]
    return fq_is_square((c0 * c0 + 2 * c1 * c1) % Q)

# ---- affine curve arithmetic, generic over a field given by (ty)
class Curve:
    def __init__(self, ty, b):
        self.ty = ty
        self.b = b

    def add(self, P, Q_):
        A = NUM; ty = self.ty
        if P is None:
            return Q_
        if Q_ is None:
            return P
        x1, y1 = P; x2, y2 = Q_
        if x1 == x2:
            if tw_is_zero(A.add(ty, y1, y2)):
                return None
            # doubling
            lam = A.mul(ty, A.scalar(ty, A.mul(ty, x1, x1), 3), tw_inv(ty, A.dbl(ty, y1)))
        else:
            lam = A.mul(ty, A.sub(ty, y2, y1), tw_inv(ty, A.sub(ty, x2, x1)))
        x3 = A.sub(ty, A.sub(ty, A.mul(ty, lam, lam), x1), x2)
        y3 = A.sub(ty, A.mul(ty, lam, A.sub(ty, x1, x3)), y1)
        return (x3, y3)

    def neg(self, P):
        if P is None:
            return None
        return (P[0], NUM.neg(self.ty, P[1]))

    def mul(self, k, P):
        R_ = None
        for bit in bin(k)[2:] if k else '':
            R_ = self.add(R_, R_)
            if bit == '1':
                R_ = self.add(R_, P)
        return R_

    def on_curve(self, P):
        A = NUM; ty = self.ty
        x, y = P
        return tw_is_zero(A.sub(ty, A.mul(ty, y, y), A.add(ty, A.mul(ty, A.mul(ty, x, x), x), self.b)))

G1C = Curve('Fq', 5)
G2C = Curve('Fq2', mk('Fq2', [0, 5]))
P1 = (0x93DE051D62BF718FF5ED0704487D01D6E1E4086909DC3280E8C4E4817C66DDDD,
      0x21FE8DDA4F21E607631065125C395BBC1C1C00CBFA6024350C464CD70A3EA616)
P2 = (mk('Fq2', [0x3722755292130B08D2AAB97FD34EC120EE265948D19C17ABF9B7213BAF82D65B,
                 0x85AEF3D078640C98597B6027B441A01FF1DD2C190F5E93C454806C11D8806141]),
      mk('Fq2', [0xA7CF28D519BE3DA65F3170153D278FF247EFBA98A71A08116215BBA5C999A7C7,
                 0x17509B092E845C1266BA0D262CBEE6ED0736A96FA347C8BD856DC76B84EBEB96]))
assert G1C.on_curve(P1) and G2C.on_curve(P2)

def jac(ty, P, lam=None):
    """Jacobian representative (lam^2 x, lam^3 y, lam); lam=None -> z = 1; P=None -> (0,1,0)"""
    A = NUM
    if P is None:
        return (tw_zero(ty), tw_one(ty), tw_zero(ty))
    if lam is None:
        return (P[0], P[1], tw_one(ty))
    l2 = A.mul(ty, lam, lam)
    return (A.mul(ty, P[0], l2), A.mul(ty, P[1], A.mul(ty, l2, lam)), lam)

def affine(ty, X, Y, Z):
    A = NUM
    if tw_is_zero(Z):
        return None
    zi = tw_inv(ty, Z)
    z2 = A.mul(ty, zi, zi)
    return (A.mul(ty, X, z2), A.mul(ty, Y, A.mul(ty, z2, zi)))

def g_enc(ty, J):
    return b''.join(tw_enc(ty, c) for c in J)

def g_dec(ty, b):
    l = len(b) // 3
    return tuple(tw_dec(ty, b[i * l:(i + 1) * l]) for i in range(3))

# ---------------------------------------------------------------------------------------------
# Textbook R-ate pairing of the SM9 standard (Part 1, Annex): independent of the library's code.
#   e(P, Q) = ( f_{6t+2,Q}(P) * l_{[6t+2]Q, pi(Q)}(P) * l_{[6t+2]Q + pi(Q), -pi^2(Q)}(P) ) ^ ((q^12-1)/r)
# computed with affine chord/tangent lines on E(F_q^12) after untwisting  psi(x', y') = (x' w^-2, y' w^-3).

def f12_from_fq(a):
    z2 = mk('Fq2', [0, 0])
    z4 = mk('Fq4', [z2, z2])
    return mk('Fq12', [mk('Fq4', [mk('Fq2', [a % Q, 0]), z2]), z4, z4])

def f12_from_fq2(a):
    z2 = mk('Fq2', [0, 0])
    z4 = mk('Fq4', [z2, z2])
    return mk('Fq12', [mk('Fq4', [a, z2]), z4, z4])

_W = None
def f12_w():
    global _W
    if _W is None:
        z2 = mk('Fq2', [0, 0]); o2 = mk('Fq2', [1, 0])
        z4 = mk('Fq4', [z2, z2])
        _W = mk('Fq12', [z4, mk('Fq4', [o2, z2]), z4])
    return _W

def untwist(Qp):
    """E'(Fq2) -> E(Fq12)"""
    A = NUM
    w = f12_w()
    w2 = A.mul('Fq12', w, w)
    w3 = A.mul('Fq12', w2, w)
    x = A.mul('Fq12', f12_from_fq2(Qp[0]), tw_inv('Fq12', w2))
    y = A.mul('Fq12', f12_from_fq2(Qp[1]), tw_inv('Fq12', w3))
    return (x, y)

def _line(T, S_, P):
    """value at P of the line through T and S_ (tangent if T == S_) on E(Fq12): y - yT - lambda (x - xT); returns (value, T+S)"""
    A = NUM; ty = 'Fq12'
    xT, yT = T; xS, yS = S_
    xP, yP = P
    if xT == xS:
        if tw_is_zero(A.add(ty, yT, yS)):
            # vertical line: x - xT (killed by the final exponentiation; returned for completeness)
            return A.sub(ty, xP, xT), None
        lam = A.mul(ty, A.scalar(ty, A.mul(ty, xT, xT), 3), tw_inv(ty, A.dbl(ty, yT)))
    else:
        lam = A.mul(ty, A.sub(ty, yS, yT), tw_inv(ty, A.sub(ty, xS, xT)))
    val = A.sub(ty, A.sub(ty, yP, yT), A.mul(ty, lam, A.sub(ty, xP, xT)))
    x3 = A.sub(ty, A.sub(ty, A.mul(ty, lam, lam), xT), xS)
    y3 = A.sub(ty, A.mul(ty, lam, A.sub(ty, xT, x3)), yT)
    return val, (x3, y3)

def rate_pairing(P, Qp):
    """P affine in E(Fq) (or None), Qp affine in E'(Fq2) (or None) -> Fq12 element"""
    if P is None or Qp is None:
        return tw_one('Fq12')
    A = NUM; ty = 'Fq12'
    Pe = (f12_from_fq(P[0]), f12_from_fq(P[1]))
    Qe = untwist(Qp)
    a = 6 * T_PARAM + 2
    f = tw_one(ty)
    T = Qe
    for bit in bin(a)[3:]:
        l, T2 = _line(T, T, Pe)
        f = A.mul(ty, A.mul(ty, f, f), l)
        T = T2
        if bit == '1':
            l, T2 = _line(T, Qe, Pe)
            f = A.mul(ty, f, l)
            T = T2
    Q1 = (pow_num(A, ty, Qe[0], Q), pow_num(A, ty, Qe[1], Q))
    Q2 = (pow_num(A, ty, Q1[0], Q), pow_num(A, ty, Q1[1], Q))
    Q2n = (Q2[0], A.neg(ty, Q2[1]))
    l, T2 = _line(T, Q1, Pe)
    f = A.mul(ty, f, l)
    T = T2
    l, _ = _line(T, Q2n, Pe)
    f = A.mul(ty, f, l)
    return pow_num(A, ty, f, (Q ** 12 - 1) // R_ORDER)

def gt_bytes(f):
    """384-byte serialisation of the standard: highest coefficient first at every level"""
    out = b''
    for c4 in reversed(f[2]):
        for c2 in reversed(c4[2]):
            out += be(c2[2][1]) + be(c2[2][0])
    return out

def gt_parse(b):
    vals = [int.from_bytes(b[i * 32:(i + 1) * 32], 'big') for i in range(12)]
    it = iter(vals)
    c4s = []
    for _ in range(3):
        c2s = []
        for _ in range(2):
            hi = next(it); lo = next(it)
            c2s.append(mk('Fq2', [lo, hi]))
        c4s.append(mk('Fq4', [c2s[1], c2s[0]]))
    return mk('Fq12', [c4s[2], c4s[1], c4s[0]])
