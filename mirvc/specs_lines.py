"""Line functions of both Miller loops (C02 structural contract, item (ii) of DESIGN §5):
each returns the value at P of the tangent / chord through the UNTWISTED points psi(x', y') = (x' w^-2, y' w^-3),
up to a factor in a proper subfield (F_q^2 resp. F_q^4, removed by the final exponentiation since (q^4-1) | (q^12-1)/r).

With l(P) = (yP - y w^-3) - lambda' w^-1 (xP - x w^-2)  one has   l * w^3 = (lambda' x - y) + yP * v - lambda' xP * w^2,
so a value is a subfield multiple of l(P) iff its coefficients on {1, v, w^2} are proportional to (L0, yP, -lambda' xP),
L0 = lambda' x - y, and all other coefficients vanish.  lambda' is the slope on the twist (3x^2/2y resp. (y2-y1)/(x2-x1))."""
from vc import FnSpec, Case, ref
from poly import Poly, V, C
from interp import S, Some, NONE, B, is_struct, Violation, Unsupported
from contracts import unref
import tower
from tower import SYM, mk
from specs_groups import Pt, G, GROUP_EXTRA, denotes, tangent, chord, setup_pts, spec_add_forks, fresh_rep, tangent_frac, jac_view, exact_rep, sum_rep

FILE = 'src/pairings.rs'
SPECS = []
ATOMS = ('Fq2', 'Fq', 'Base')
xP, yP = V('xP'), V('yP')

def g1_affine():
    return G(xP, yP, C(1))

def slope_tangent(facts, p):
    return 3 * p.a * p.a * facts.new_nu(2 * p.b)

def slope_chord(facts, p, q):
    return (q.b - p.b) * facts.new_nu(q.a - p.a)

def fq12_parts(v):
    """coefficients of an Fq12 value over Fq2 leaves as dict (i, j) -> leaf, element = sum c[i][j] * v^j * w^i"""
    out = {}
    for i, c4 in enumerate(v[2]):
        for j, c2 in enumerate(c4[2]):
            out[(i, j)] = c2
    return out

def line_clauses(st, val, L0, lam, what):
    """val is an Fq12 value; clauses: val = mu * (L0 + yP v - lam xP w^2) for some mu != 0 in Fq2"""
    p = fq12_parts(val)
    n00, n01, n20 = p[(0, 0)], p[(0, 1)], p[(2, 0)]
    zeros = [p[k] for k in p if k not in ((0, 0), (0, 1), (2, 0))]
    if not st.facts.is_nonzero(n01):
        raise Violation("%s: cannot establish that the v-coefficient (mu * yP) is non-zero" % what)
    return [(what + '_sparse', zeros), (what + '_const_term', [n00 * yP - n01 * L0]), (what + '_w2_term', [n20 * yP + n01 * lam * xP])]

def den_clauses(st, den, what):
    p = fq12_parts(den)
    d = p[(0, 1)]
    zeros = [p[k] for k in p if k != (0, 1)]
    if not st.facts.is_nonzero(d):
        raise Violation("%s: denominator may be zero" % what)
    return [(what + '_in_Fq4', zeros)]

def common_setup(*pts, more=None):
    def setup(facts):
        for p in pts:
            p.setup(facts)
        facts.assume_nonzero(yP)           # P is a finite point of G1: y != 0 (A4)
        if more:
            more(facts)
    return setup

# ---- eval_g_tangent
def egt_cases():
    t = Pt('jac', 1)
    return [Case('finite', [ref(t.rep), ref(g1_affine())], common_setup(t), aux={'t': t})]
def egt_post(case, st, ret, interp):
    t = case.aux['t']
    lam = slope_tangent(st.facts, t)
    num, den = ret[2]
    return line_clauses(st, num, lam * t.a - t.b, lam, 'num') + den_clauses(st, den, 'den')
SPECS.append(FnSpec('pairings::eval_g_tangent', FILE, r'<impl>::eval_g_tangent$', None, ATOMS, egt_cases, egt_post, extra=dict(GROUP_EXTRA), prop=('C02', 'C17')))

# ---- eval_g_line
def egl_cases():
    t, s = Pt('jac', 1), Pt('jac', 2)
    def more(facts):
        facts.assume_nonzero(s.a - t.a)     # a genuine chord (ground facts on the loop constant, DESIGN C02(i))
    return [Case('chord', [ref(t.rep), ref(s.rep), ref(g1_affine())], common_setup(t, s, more=more), aux={'t': t, 's': s})]
def egl_post(case, st, ret, interp):
    t, s = case.aux['t'], case.aux['s']
    lam = slope_chord(st.facts, t, s)
    num, den = ret[2]
    return line_clauses(st, num, lam * t.a - t.b, lam, 'num') + den_clauses(st, den, 'den')
SPECS.append(FnSpec('pairings::eval_g_line', FILE, r'<impl>::eval_g_line$', None, ATOMS, egl_cases, egl_post, extra=dict(GROUP_EXTRA), prop=('C02', 'C17')))

# ---- prepared coefficients: (c0, c1, c2) with  c0 yP v + c1 + c2 xP w^2  proportional to the line
def coeff_clauses(st, c, L0, lam, what):
    c0, c1, c2 = c[2]
    if not st.facts.is_nonzero(c0):
        raise Violation("%s: c0 may be zero" % what)
    return [(what + '_c1', [c1 - c0 * L0]), (what + '_c2', [c2 + c0 * lam])]

def h_double_exact(cx, interp, func, st, c, args):
    # contract of G::double (obligations groups::double/*/result_* and z_is_2yz): the double with z3 = 2 y1 z1
    P = unref(interp, st, args[0])
    out = []
    for s, p in jac_view(cx, st, P):
        if p is None:
            out.append((s, fresh_rep(s, None, 'dbl')))
        else:
            out.append((s, exact_rep(s, tangent_frac(p), 2 * P[2][1] * P[2][2])))
    return out

def h_add_assign_group(cx, interp, func, st, c, args):
    tgt = args[0]
    cur = interp.deref(st, tgt)
    other = unref(interp, st, args[1])
    out = []
    for s, e in spec_add_forks(cx, st, cur, other):
        rep = sum_rep(s, cur, other, e)
        base = s.mem[(tgt[1], tgt[2])]
        s.mem[(tgt[1], tgt[2])] = interp.set_field(base, list(tgt[3]), rep) if tgt[3] else rep
        out.append((s, S('()', [])))
    return out
EXM = dict(GROUP_EXTRA)
EXM[r'^<G<\w+> as AddAssign<&G<\w+>>>::add_assign$'] = h_add_assign_group
EXM[r'^<G<\w+> as GroupElement>::double$'] = h_double_exact

def gt_cases():
    t = Pt('jac', 1)
    return [Case('finite', [('mref', 0, 1000, ())], common_setup(t), aux={'t': t, 'mem': {(0, 1000): t.rep}})]
def gt_post(case, st, ret, interp):
    t = case.aux['t']
    lam = slope_tangent(st.facts, t)
    cl = coeff_clauses(st, ret, lam * t.a - t.b, lam, 'coeff')
    return cl + denotes(st, st.mem[(0, 1000)], tangent(t.aff), 'self_becomes_2T')
SPECS.append(FnSpec('pairings::g_tangent', FILE, r'<impl>::g_tangent$', None, ATOMS, gt_cases, gt_post, extra=EXM, prop=('C02', 'C17')))

def gl_cases():
    t, s = Pt('jac', 1), Pt('aff', 2)
    def more(facts):
        facts.assume_nonzero(s.a - t.a)
    return [Case('chord', [('mref', 0, 1000, ()), ref(s.rep)], common_setup(t, s, more=more), aux={'t': t, 's': s, 'mem': {(0, 1000): t.rep}})]
def gl_post(case, st, ret, interp):
    t, s = case.aux['t'], case.aux['s']
    lam = slope_chord(st.facts, t, s)
    cl = coeff_clauses(st, ret, lam * t.a - t.b, lam, 'coeff')
    return cl + denotes(st, st.mem[(0, 1000)], chord(t.aff, s.aff), 'self_becomes_T_plus_S')
SPECS.append(FnSpec('pairings::g_line', FILE, r'<impl>::g_line$', None, ATOMS, gl_cases, gl_post, extra=EXM, prop=('C02', 'C17')))

# ---- get_fq12: places (c0*t1, c1) at w^0 and (0, c2*x) at w^2  (with t1 = yP*u this is v * (c0 yP v + c1 + c2 xP w^2))
def gf_cases():
    c = S('()', [V('c0'), V('c1'), V('c2')])
    prep = S('G2Prepared', [('vecsym', 'coeffs')])
    return [Case('all', [ref(prep), ref(c), ref(V('t1')), ref(V('x'))])]
def gf_post(case, st, ret, interp):
    p = fq12_parts(unref(interp, st, ret))
    zeros = [p[k] for k in p if k not in ((0, 0), (0, 1), (2, 1))]
    return [('layout', [p[(0, 0)] - V('c0') * V('t1'), p[(0, 1)] - V('c1'), p[(2, 1)] - V('c2') * V('x')] + zeros)]
SPECS.append(FnSpec('pairings::get_fq12', FILE, r'<impl>::get_fq12$', None, ATOMS, gf_cases, gf_post, prop=('C02', 'C17')))

# ------------------------------------------------------------------------------------------------
# Frobenius on the twist:  pi^k(x', y') = twist(Frob_q^k(untwist(x', y'))) = (x'^(q^k) * g_k^-2, y'^(q^k) * g_k^-3),
# g_k = w^(q^k - 1) = u^((q^k - 1)/6)  (computed exactly).  In Jacobian form (X, Y, Z) -> (X^(q^k), Y^(q^k), Z^(q^k) * g_k).
import consts as _consts
from facts import Q as _Q
from tower import fresh as _fresh
from contracts import _u_pow
_K = _consts.parse_consts()
_EXC = {'__consts__': _K}
A_ = SYM

def _g(k):
    c = _u_pow((_Q ** k - 1) // 6, _Q)
    return mk('Fq2', [C(c[0]), C(c[1])])

def _jac2(name):
    return S('G', [_fresh('Fq2', name + 'x', ('Fq',)), _fresh('Fq2', name + 'y', ('Fq',)), _fresh('Fq2', name + 'z', ('Fq',))])

def _frob_point_clauses(T, R, k):
    X, Y, Z = T[2]
    X2, Y2, Z2 = R[2]
    cj = (lambda v: A_.conj('Fq2', v)) if k % 2 else (lambda v: v)
    g = _g(k)
    M = lambda a, b: A_.mul('Fq2', a, b)
    zc = cj(Z)
    g2 = M(g, g); g3 = M(g2, g)
    # x'' = conj(x)/g^2 with x = X/Z^2:   X2 * g^2 * conj(Z)^2 == conj(X) * Z2^2   (and cubes for y)
    lhs_x = M(M(X2, g2), M(zc, zc)); rhs_x = M(cj(X), M(Z2, Z2))
    lhs_y = M(M(Y2, g3), M(M(zc, zc), zc)); rhs_y = M(cj(Y), M(M(Z2, Z2), Z2))
    return [('x_is_frobenius', A_.eq_components('Fq2', lhs_x, rhs_x)), ('y_is_frobenius', A_.eq_components('Fq2', lhs_y, rhs_y))]

def _pi_post(k):
    def post(case, st, ret, interp):
        T = unref(interp, st, case.args[0])
        return _frob_point_clauses(T, unref(interp, st, ret), k)
    return post
SPECS.append(FnSpec('pairings::point_pi1', FILE, r'<impl>::point_pi1$', None, ('Fq',), lambda: [Case('all', [ref(_jac2('t'))])], _pi_post(1), extra=_EXC, prop=('C02', 'C17')))
SPECS.append(FnSpec('pairings::point_pi2', FILE, r'<impl>::point_pi2$', None, ('Fq',), lambda: [Case('all', [ref(_jac2('t'))])], _pi_post(2), extra=_EXC, prop=('C02', 'C17')))

def _qpf_cases():
    f = _fresh('Fq2', 'f', ('Fq',))
    def setup(facts):
        facts.assume_nonzero(f[2][0] * f[2][0] + 2 * f[2][1] * f[2][1])     # f != 0 (A2: norm of a non-zero element)
    return [Case('nonzero_f', [ref(_jac2('t')), ref(f)], setup), Case('zero_f', [ref(_jac2('t')), ref(mk('Fq2', [Poly(), Poly()]))])]
def _qpf_post(case, st, ret, interp):
    if case.name == 'zero_f':
        if ret[1] != 'None':
            raise Violation("q_power_frobenius(f = 0) must be None")
        return [('none_iff_f_zero', [])]
    if ret[1] != 'Some':
        raise Violation("q_power_frobenius returned None for f != 0")
    T = unref(interp, st, case.args[0]); f = unref(interp, st, case.args[1])
    X, Y, Z = T[2]; X2, Y2, Z2 = ret[2][0][2]
    M = lambda a, b: A_.mul('Fq2', a, b)
    cj = lambda v: A_.conj('Fq2', v)
    f2 = M(f, f); f3 = M(f2, f)
    return [('x', A_.eq_components('Fq2', M(X2, f2), cj(X))), ('y', A_.eq_components('Fq2', M(Y2, f3), cj(Y))), ('z', A_.eq_components('Fq2', Z2, cj(Z)))]
SPECS.append(FnSpec('pairings::q_power_frobenius', FILE, r'<impl>::q_power_frobenius$', None, ('Fq',), _qpf_cases, _qpf_post, extra=_EXC, prop=('C02', 'C17')))
