"""Delegation obligations: (a) every macro-generated operator form (`T op U`, `&T op U`, `T op &U`, `&T op &U`, `op=`)
of Fr, Fq, Fq2, Fq4, Fq12 and of the lib.rs newtypes computes the ring operation of its operands; (b) the lib.rs
wrappers are exactly `wrap(inner(unwrap args))`.  Callees that are not ring operations are uninterpreted here: the
obligation is that the wrapper *is* the stated composition, whatever the inner function computes (its own contract is
discharged where it is defined)."""
import re
from vc import FnSpec, Case, ref
from poly import Poly, V, C
from interp import S, Some, NONE, B, is_struct, Violation, Unsupported
from contracts import unref, norm_types, same_value, canon
import tower
from tower import SYM, fresh, mk

UF = [
    (r'^<(Fq|Fr|Fq12) as FieldElement>::pow::<', 'val'),
    (r'^<(Fq|Fr|Fq2|Fq12) as FieldElement>::random', 'val'),
    (r'^<(Fq|Fr) as Into<U256>>::into$', 'val'),
    (r'^<(Fq|Fr) as Into<\[u8; 32\]>>::into$', 'val'),
    (r'^U256::(is_even|is_odd)$', 'val'),
    (r'^(Fq|Fr)::(to_slice|interpret|new_mul_factor)$', 'val'),
    (r'^(Fq|Fr)::(from_hash|from_str|sqrt|from_slice)$', 'opt'),
    (r'^Fr::set_bit$', 'unit'),
    (r'^Fq2::(to_slice)$', 'val'),
    (r'^Fq2::(sqrt)$', 'opt'),
    (r'^Fq2::from_slice$', 'res'),
    (r'^Fq12::to_slice$', 'val'),
    (r'^<Fq12 as FieldElement>::inverse$', 'opt'),
    (r'^<G<\w+> as (Add|Sub|Neg|Mul<Fr>|GroupElement|Zero)>::(add|sub|neg|mul|one|zero|double)$', 'val'),
    (r'^<G<\w+> as Zero>::is_zero$', 'val'),
    (r'^<G<\w+> as PartialEq>::eq$', 'val'),
    (r'^G::<\w+>::to_affine$', 'opt'),
    (r'^AffineG::<\w+>::to_jacobian$', 'val'),
    (r'^AffineG::<\w+>::new$', 'res'),
    (r'^<\w+ as GroupParams>::coeff_b$', 'val'),
    (r'^pairings::(pairing|fast_pairing)$', 'val'),
    (r'^<G2Prepared as From<G<G2Params>>>::from$', 'val'),
    (r'^G2Prepared::miller_loop$', 'val'),
    (r'^Fq12::final_exp$', 'opt'),
]

def W(ty, v):
    return S(ty, [v])

def mkval(t, name):
    """fresh symbolic value of canonical type t"""
    if t in ('Fq', 'Fr'):
        return V(name)
    if t in ('Fq2', 'Fq4', 'Fq12'):
        return fresh(t, name, ('Fq',))
    if t in ('LFq', 'LFr'):
        return W(t, V(name))
    if t == 'LFq2':
        return W(t, fresh('Fq2', name, ('Fq',)))
    if t == 'LGt':
        return W(t, V(name))
    if t == 'LG1':
        return W(t, S('G', [V(name + 'x'), V(name + 'y'), V(name + 'z')]))
    if t == 'LG2':
        return W(t, S('G', [fresh('Fq2', name + 'x', ('Fq',)), fresh('Fq2', name + 'y', ('Fq',)), fresh('Fq2', name + 'z', ('Fq',))]))
    if t == 'LAffineG1':
        return W(t, S('AffineG', [V(name + 'x'), V(name + 'y')]))
    if t == 'LAffineG2':
        return W(t, S('AffineG', [fresh('Fq2', name + 'x', ('Fq',)), fresh('Fq2', name + 'y', ('Fq',))]))
    raise KeyError(t)

def inner_of(v):
    return v[2][0] if (is_struct(v) and v[1].startswith('L')) else v

def ring_ty(t):
    return t[1:] if t.startswith('L') else t

def ring_op(op, t, a, b=None):
    rt = ring_ty(t)
    T = rt if rt in ('Fq2', 'Fq4', 'Fq12') else 'Fq'
    x = inner_of(a)
    y = inner_of(b) if b is not None else None
    r = {'add': lambda: SYM.add(T, x, y), 'sub': lambda: SYM.sub(T, x, y), 'mul': lambda: SYM.mul(T, x, y), 'neg': lambda: SYM.neg(T, x)}[op]()
    return W(t, r) if t.startswith('L') else r

def leaves_diff(a, b):
    return [p - q for p, q in zip(SYM.leaves(inner_of(a)), SYM.leaves(inner_of(b)))]

PROP_OF = {'Fq': ('C06',), 'Fr': ('C06',), 'LFq': ('C06',), 'LFr': ('C06',), 'Fq2': ('C12',), 'LFq2': ('C12',), 'Fq4': ('C17',), 'Fq12': ('C17', 'C11')}

def build(funcs):
    specs = []
    # ---------------------------------------------------------------- (a) operator forms from fields/utils.rs
    for f in funcs.values():
        k = f.key
        if k[0] != 'src/fields/utils.rs':
            continue
        name = k[1].split('::')[-1]
        m = re.match(r'^\((.*)\) -> (.*)$', k[2])
        if not m:
            continue
        import mirparse
        argt = [norm_types(x).strip() for x in mirparse.split_top(m.group(1))]
        base = name.replace('_assign', '')
        if base not in ('add', 'sub', 'mul', 'neg'):
            continue
        tys = [re.sub(r'^&(mut )?', '', t) for t in argt]
        if any(t not in PROP_OF for t in tys):
            continue
        fid = 'ops::%s(%s)' % (name, ', '.join(argt))
        def cases(argt=argt, tys=tys, name=name):
            args = []
            aux = {'mem': {}}
            for i, (at, t) in enumerate(zip(argt, tys)):
                v = mkval(t, 'ab'[i])
                if at.startswith('&mut '):
                    aux['mem'][(0, 1000 + i)] = v
                    args.append(('mref', 0, 1000 + i, ()))
                elif at.startswith('&'):
                    args.append(ref(v))
                else:
                    args.append(v)
            aux['vals'] = [mkval(t, 'ab'[i]) for i, t in enumerate(tys)]
            return [Case('all', args, None, aux)]
        def post(case, st, ret, interp, name=name, tys=tys, base=base):
            vals = case.aux['vals']
            exp = ring_op(base, tys[0], vals[0], vals[1] if len(vals) > 1 else None)
            got = st.mem[(0, 1000)] if name.endswith('_assign') else unref(interp, st, ret)
            if is_struct(exp) != is_struct(got):
                raise Violation("operator form returns a value of the wrong shape")
            return [('post', leaves_diff(got, exp))]
        specs.append(FnSpec(fid, 'src/fields/utils.rs', r'<impl>::%s$' % name, '^' + re.escape(norm_types(k[2])) + '$', ('Fq',), cases, post,
                            prop=PROP_OF[tys[0]]))
    # ---------------------------------------------------------------- (b) lib.rs wrappers
    EX = {'__uf__': UF}
    def add(fid, name, sig, argts, expect, prop, by_ref=None, mutself=False):
        """expect(vals, st, notes) -> expected value (of the return, or of *self when mutself)"""
        def cases():
            args = []
            aux = {'mem': {}}
            vals = [mkval(t, 'abc'[i]) if isinstance(t, str) else t for i, t in enumerate(argts)]
            for i, v in enumerate(vals):
                if mutself and i == 0:
                    aux['mem'][(0, 1000)] = v
                    args.append(('mref', 0, 1000, ()))
                elif by_ref and by_ref[i]:
                    args.append(ref(v))
                else:
                    args.append(v)
            aux['vals'] = vals
            return [Case('all', args, None, aux)]
        def post(case, st, ret, interp):
            exp = expect(case.aux['vals'], st)
            got = st.mem[(0, 1000)] if mutself else canon(interp, st, ret)
            got = canon(interp, st, got)
            if not same_value(st, got, exp):
                raise Violation("wrapper is not the stated delegation: got %s, expected %s" % (str(got)[:160], str(exp)[:160]))
            return [('delegation', [])]
        specs.append(FnSpec('lib::' + fid, None if name.startswith('^') else 'src/lib.rs', name, sig, ('Fq', 'Fr', 'Fq12'), cases, post, extra=EX, prop=prop))
    def ufx(pat, *args):
        return ('ufx', pat, tuple(args))
    def opt_of(st, pat):
        """the outcome of the (single) optional uninterpreted call matching pat on this path: None | payload token"""
        hits = [n for n in st.notes if isinstance(n, tuple) and n[0] == 'ufo' and re.search(pat, n[1])]
        if len(hits) != 1:
            raise Violation("expected exactly one call matching %s, found %d" % (pat, len(hits)))
        return hits[0]
    for F, props in (('Fq', ('C06',)), ('Fr', ('C06',))):
        L = 'L' + F
        sg = lambda a, r, L=L: r'^\(%s\) -> %s$' % (a.replace('L', L), r.replace('L', L))
        for op in ('add', 'sub', 'mul'):
            add('%s::%s_inplace' % (L, op), r'<impl>::%s_inplace$' % op, r'^\(&%s, &%s\) -> %s$' % (L, L, L), [L, L],
                lambda v, st, op=op, L=L: ring_op(op, L, v[0], v[1]), props, by_ref=[1, 1])
        add('%s::neg_inplace' % L, r'<impl>::neg_inplace$', r'^\(&%s\) -> %s$' % (L, L), [L], lambda v, st, L=L: ring_op('neg', L, v[0]), props, by_ref=[1])
        add('%s::zero' % L, r'<impl>::zero$', r'^\(\) -> %s$' % L, [], lambda v, st, L=L: W(L, Poly()), props)
        add('%s::one' % L, r'<impl>::one$', r'^\(\) -> %s$' % L, [], lambda v, st, L=L: W(L, C(1)), props)
        add('%s::pow' % L, r'<impl>::pow$', r'^\(&%s, %s\) -> %s$' % (L, L, L), [L, L],
            lambda v, st, L=L, F=F: W(L, ufx(r'^<%s as FieldElement>::pow::<%s>$' % (F, F), inner_of(v[0]), inner_of(v[1]))), props, by_ref=[1, 0])
        def inv_expect(v, st, L=L, F=F):
            # the inner inverse has a real contract: None iff 0, else Some(nu)
            x = inner_of(v[0])
            if st.facts.is_zero(x):
                return NONE
            nu = [n for n, N in st.facts.nus if st.facts.is_zero(N - x)]
            if len(nu) != 1:
                raise Violation("inverse wrapper: inner inverse not called on self.0")
            return Some(W(L, V(nu[0])))
        add('%s::inverse' % L, r'<impl>::inverse$', r'^\(&%s\) -> Option<%s>$' % (L, L), [L], inv_expect, props, by_ref=[1])
        def isz_expect(v, st):
            return B(st.facts.is_zero(inner_of(v[0])))
        add('%s::is_zero' % L, r'<impl>::is_zero$', r'^\(&%s\) -> bool$' % L, [L], isz_expect, props, by_ref=[1])
        add('%s::to_slice' % L, r'<impl>::to_slice$', r'^\(%s\) -> \[u8; 32\]$' % L, [L],
            lambda v, st, F=F: ufx(r'^(%s::to_slice|<%s as Into<\[u8; 32\]>>::into)$' % (F, F), inner_of(v[0])), ('C13',))
        add('%s::new_mul_factor' % L, r'<impl>::new_mul_factor$', r'-> %s$' % L, [('opaque', 'u256')],
            lambda v, st, L=L, F=F: W(L, ufx(r'^%s::new_mul_factor$' % F, v[0])), ('C13',))
        def fromstr_expect(v, st, L=L, F=F):
            n = opt_of(st, r'^%s::from_str$' % F)
            if n[3] is None:
                return ('enum', 'Err', [('opaque', 'any')])
            return ('enum', 'Ok', [W(L, ('ufp', n[3]))])
    # Fq-only / Fr-only
    add('LFq::sqrt', r'<impl>::sqrt$', r'^\(&LFq\) -> Option<LFq>$', ['LFq'],
        lambda v, st: (NONE if opt_of(st, r'^Fq::sqrt$')[3] is None else Some(W('LFq', ('ufp', opt_of(st, r'^Fq::sqrt$')[3])))), ('C14',), by_ref=[1])
    add('LFq::into_u256', r'<impl>::into_u256$', None, ['LFq'], lambda v, st: ufx(r'^<Fq as Into<U256>>::into$', inner_of(v[0])), ('C13',))
    add('LFq::is_even', r'<impl>::is_even$', r'^\(&LFq\) -> bool$', ['LFq'],
        lambda v, st: ufx(r'^U256::is_even$', ufx(r'^(<Fq as Into<U256>>::into|LFq::into_u256)$', inner_of(v[0]))), ('C10', 'C12'), by_ref=[1])
    add('LFr::from_hash', r'<impl>::from_hash$', None, [('opaque', 'bytes')],
        lambda v, st: (NONE if opt_of(st, r'^Fr::from_hash$')[3] is None else Some(W('LFr', ('ufp', opt_of(st, r'^Fr::from_hash$')[3])))), ('C13',))
    # ---- Fq2 wrapper
    for op in ('add', 'sub', 'mul'):
        add('LFq2::%s_inplace' % op, r'<impl>::%s_inplace$' % op, r'^\(&LFq2, &LFq2\) -> LFq2$', ['LFq2', 'LFq2'],
            lambda v, st, op=op: ring_op(op, 'LFq2', v[0], v[1]), ('C12',), by_ref=[1, 1])
    add('LFq2::neg_inplace', r'<impl>::neg_inplace$', r'^\(&LFq2\) -> LFq2$', ['LFq2'], lambda v, st: ring_op('neg', 'LFq2', v[0]), ('C12',), by_ref=[1])
    add('LFq2::zero', r'<impl>::zero$', r'^\(\) -> LFq2$', [], lambda v, st: W('LFq2', mk('Fq2', [Poly(), Poly()])), ('C12',))
    add('LFq2::one', r'<impl>::one$', r'^\(\) -> LFq2$', [], lambda v, st: W('LFq2', mk('Fq2', [C(1), Poly()])), ('C12',))
    add('LFq2::new', r'<impl>::new$', r'^\(LFq, LFq\) -> LFq2$', ['LFq', 'LFq'],
        lambda v, st: W('LFq2', mk('Fq2', [inner_of(v[0]), inner_of(v[1])])), ('C12',))
    add('LFq2::real', r'<impl>::real$', r'^\(&LFq2\) -> LFq$', ['LFq2'], lambda v, st: W('LFq', inner_of(v[0])[2][0]), ('C12',), by_ref=[1])
    add('LFq2::imaginary', r'<impl>::imaginary$', r'^\(&LFq2\) -> LFq$', ['LFq2'], lambda v, st: W('LFq', inner_of(v[0])[2][1]), ('C12',), by_ref=[1])
    add('LFq2::is_zero', r'<impl>::is_zero$', r'^\(&LFq2\) -> bool$', ['LFq2'],
        lambda v, st: B(all(st.facts.is_zero(p) for p in SYM.leaves(inner_of(v[0])))), ('C12',), by_ref=[1])
    add('LFq2::is_even', r'<impl>::is_even$', r'^\(&LFq2\) -> bool$', ['LFq2'],
        lambda v, st: ufx(r'^U256::is_even$', ufx(r'^(<Fq as Into<U256>>::into|LFq::into_u256)$', inner_of(v[0])[2][0])), ('C12', 'C10'), by_ref=[1])
    add('LFq2::to_slice', r'<impl>::to_slice$', r'^\(LFq2\) -> \[u8; 64\]$', ['LFq2'], lambda v, st: ufx(r'^Fq2::to_slice$', inner_of(v[0])), ('C12',))
    add('LFq2::sqrt', r'<impl>::sqrt$', r'^\(&LFq2\) -> Option<LFq2>$', ['LFq2'],
        lambda v, st: (NONE if opt_of(st, r'^Fq2::sqrt$')[3] is None else Some(W('LFq2', ('ufp', opt_of(st, r'^Fq2::sqrt$')[3])))), ('C14',), by_ref=[1])
    # ---- groups
    for G, P in (('LG1', 'G1Params'), ('LG2', 'G2Params')):
        pr = ('C04', 'C16')
        for op, tr in (('add', 'Add'), ('sub', 'Sub')):
            add('%s::%s' % (G, op), r'<impl>::%s$' % op, r'^\(%s, %s\) -> %s$' % (G, G, G), [G, G],
                lambda v, st, op=op, tr=tr, G=G, P=P: W(G, ufx(r'^<G<%s> as %s>::%s$' % (P, tr, op), inner_of(v[0]), inner_of(v[1]))), pr)
        add('%s::neg' % G, r'<impl>::neg$', r'^\(%s\) -> %s$' % (G, G), [G],
            lambda v, st, G=G, P=P: W(G, ufx(r'^<G<%s> as Neg>::neg$' % P, inner_of(v[0]))), pr)
        add('%s::mul' % G, r'<impl>::mul$', r'^\(%s, LFr\) -> %s$' % (G, G), [G, 'LFr'],
            lambda v, st, G=G, P=P: W(G, ufx(r'^<G<%s> as Mul<Fr>>::mul$' % P, inner_of(v[0]), inner_of(v[1]))), ('C05', 'C16'))
        add('%s::zero' % G, r'<impl>::zero$', r'^\(\) -> %s$' % G, [], lambda v, st, G=G, P=P: W(G, ufx(r'^<G<%s> as Zero>::zero$' % P)), pr)
        add('%s::one' % G, r'<impl>::one$', r'^\(\) -> %s$' % G, [], lambda v, st, G=G, P=P: W(G, ufx(r'^<G<%s> as GroupElement>::one$' % P)), pr)
        add('%s::is_zero' % G, r'<impl>::is_zero$', r'^\(&%s\) -> bool$' % G, [G],
            lambda v, st, G=G, P=P: ufx(r'^<G<%s> as Zero>::is_zero$' % P, inner_of(v[0])), ('C15',), by_ref=[1])
        def norm_expect(v, st, G=G, P=P):
            n = opt_of(st, r'^G::<%s>::to_affine$' % P)
            if not same_value(st, n[2][0], inner_of(v[0])):
                raise Violation("normalize: to_affine is not applied to self")
            if n[3] is None:
                return v[0]                       # identity: left untouched
            return W(G, ufx(r'^AffineG::<%s>::to_jacobian$' % P, ('ufp', n[3])))
        add('%s::normalize' % G, r'<impl>::normalize$', r'^\(&mut %s\) -> \(\)$' % G, [G], norm_expect, ('C15', 'C03'), mutself=True)
        # coordinates
        for i, c in enumerate('xyz'):
            LB = 'LFq' if G == 'LG1' else 'LFq2'
            add('%s::%s' % (G, c), r'<impl>::%s$' % c, r'^\(&%s\) -> %s$' % (G, LB), [G],
                lambda v, st, i=i, LB=LB: W(LB, inner_of(v[0])[2][i]), ('C15',), by_ref=[1])
        add('%s::new' % G, r'<impl>::new$', r'-> %s$' % G, ['LFq' if G == 'LG1' else 'LFq2'] * 3,
            lambda v, st, G=G: W(G, S('G', [inner_of(x) for x in v])), ('C15',))
    add('LFr*LG1', r'<impl>::mul$', r'^\(LFr, LG1\) -> LG1$', ['LFr', 'LG1'],
        lambda v, st: W('LG1', ufx(r'^<G<G1Params> as Mul<Fr>>::mul$', inner_of(v[1]), inner_of(v[0]))), ('C05',))
    add('LFr*LG2', r'<impl>::mul$', r'^\(LFr, LG2\) -> LG2$', ['LFr', 'LG2'],
        lambda v, st: W('LG2', ufx(r'^<G<G2Params> as Mul<Fr>>::mul$', inner_of(v[1]), inner_of(v[0]))), ('C05',))
    # ---- Gt
    add('LGt::one', r'<impl>::one$', r'^\(\) -> LGt$', [], lambda v, st: W('LGt', C(1)), ('C11',))
    add('LGt::mul', r'<impl>::mul$', r'^\(LGt, LGt\) -> LGt$', ['LGt', 'LGt'], lambda v, st: W('LGt', inner_of(v[0]) * inner_of(v[1])), ('C11',))
    add('LGt::pow', r'<impl>::pow$', r'^\(&LGt, LFr\) -> LGt$', ['LGt', 'LFr'],
        lambda v, st: W('LGt', ufx(r'^<Fq12 as FieldElement>::pow::<Fr>$', inner_of(v[0]), inner_of(v[1]))), ('C11', 'C01'), by_ref=[1, 0])
    add('LGt::inverse', r'<impl>::inverse$', r'^\(&LGt\) -> Option<LGt>$', ['LGt'],
        lambda v, st: (NONE if opt_of(st, r'^<Fq12 as FieldElement>::inverse$')[3] is None else
                       Some(W('LGt', ('ufp', opt_of(st, r'^<Fq12 as FieldElement>::inverse$')[3])))), ('C11',), by_ref=[1])
    add('LGt::to_slice', r'<impl>::to_slice$', r'^\(LGt\) -> \[u8; 384\]$', ['LGt'], lambda v, st: ufx(r'^Fq12::to_slice$', inner_of(v[0])), ('C11',))
    # ---- affine wrappers
    for Aw, P, G in (('LAffineG1', 'G1Params', 'LG1'), ('LAffineG2', 'G2Params', 'LG2')):
        def fj_expect(v, st, Aw=Aw, P=P):
            n = opt_of(st, r'^G::<%s>::to_affine$' % P)
            if not same_value(st, n[2][0], inner_of(v[0])):
                raise Violation("from_jacobian: to_affine is not applied to the argument")
            return NONE if n[3] is None else Some(W(Aw, ('ufp', n[3])))
        add('%s::from_jacobian' % Aw, r'<impl>::from_jacobian$', r'-> Option<%s>$' % Aw, [G], fj_expect, ('C15', 'C10'))
        add('%s->%s' % (Aw, G), r'<impl>::from$', r'^\(%s\) -> %s$' % (Aw, G), [Aw],
            lambda v, st, G=G, P=P: W(G, ufx(r'^AffineG::<%s>::to_jacobian$' % P, inner_of(v[0]))), ('C15',))
        def new_expect(v, st, Aw=Aw, P=P):
            n = opt_of(st, r'^AffineG::<%s>::new$' % P)
            if not (same_value(st, n[2][0], inner_of(v[0])) and same_value(st, n[2][1], inner_of(v[1]))):
                raise Violation("Affine::new wrapper: inner constructor not applied to (x, y)")
            if n[3] is None:
                return ('enum', 'Err', [('opaque', 'converted error')])
            return ('enum', 'Ok', [W(Aw, ('ufp', n[3]))])
        add('%s::new' % Aw, r'<impl>::new$', r'-> Result<%s' % Aw, ['LFq' if Aw == 'LAffineG1' else 'LFq2'] * 2, new_expect, ('C09',))
    # ---- pairing entry points (structure only: which inner function sees which arguments)
    add('pairing', r'^pairing$', r'^\(LG1, LG2\) -> LGt$', ['LG1', 'LG2'],
        lambda v, st: W('LGt', ufx(r'^pairings::pairing$', inner_of(v[0]), inner_of(v[1]))), ('C03',))
    return specs
