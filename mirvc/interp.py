"""Symbolic path-exploring interpreter for the MIR subset of mirparse.

Every call is replaced by the callee's *contract* (contracts.py) -- never its
body -- except closure bodies, which MIR prints as separate functions and which
are part of the function under verification.
"""
import re, itertools
from poly import Poly, V, C
from facts import Facts, Infeasible

class Unsupported(Exception):
    pass

class Violation(Exception):
    """a call-site precondition or an in-body assertion that is refuted"""
    def __init__(self, what, state=None):
        Exception.__init__(self, what)
        self.what = what
        self.state = state

# ---------------------------------------------------------------------------
# values
#   Poly                          atomic ring element
#   ('struct', name, [fields])    structs, tuple structs, tuples (name '()')
#   ('enum', variant, [payload])  Option / Result values
#   ('bool', b) ('int', n)        concrete scalars
#   ('ref', value)                shared reference = snapshot of the referent
#   ('mref', frame, local, path)  mutable reference to a place
#   ('closure', fname, env)       closure value (env is a struct value)
#   ('fnitem', text)
#   ('opaque', tag)

def S(name, fields):
    return ('struct', name, list(fields))

def Some(v):
    return ('enum', 'Some', [v])

NONE = ('enum', 'None', [])

def B(b):
    return ('bool', bool(b))

def is_struct(v):
    return isinstance(v, tuple) and v and v[0] == 'struct'

class State:
    def __init__(self, facts):
        self.mem = {}       # (frame, local) -> value
        self.facts = facts
        self.trace = []     # branch decisions (for path naming)
        self.nframes = 0
        self.notes = []
        self.loop_phase = {}

    def fork(self):
        s = State(self.facts.copy())
        s.mem = dict(self.mem)
        s.trace = list(self.trace)
        s.nframes = self.nframes
        s.notes = list(self.notes)
        s.loop_phase = dict(self.loop_phase)
        return s

class Interp:
    def __init__(self, funcs_by_name, contracts, max_paths=400):
        self.funcs = funcs_by_name
        self.contracts = contracts      # object with .call(interp, state, callee, args) -> list of (state, value)
        self.max_paths = max_paths
        self.npaths = 0
        self.loop_specs = {}        # func name -> LoopSpec (inductive invariant of the function's single loop)
        self.side = []              # obligations raised inside the run: (clause name, polys, facts snapshot, trace)

    # ------------------------------------------------------------ places
    def read_place(self, st, fr, p):
        k = p[0]
        if k == 'local':
            key = (fr, p[1])
            if key not in st.mem:
                raise Unsupported("read of unassigned local _%d" % p[1])
            v = st.mem[key]
            if isinstance(v, tuple) and v and v[0] == 'undef':
                raise Unsupported("read of a loop-modified local _%d that the invariant does not describe" % p[1])
            return v
        if k == 'deref':
            v = self.read_place(st, fr, p[1])
            return self.deref(st, v)
        if k == 'field':
            v = self.read_place(st, fr, p[1])
            return self.get_field(v, p[2])
        if k == 'downcast':
            v = self.read_place(st, fr, p[1])
            if isinstance(v, tuple) and v[0] == 'enum':
                if v[1] != p[2]:
                    raise Unsupported("downcast of %s to %s" % (v[1], p[2]))
                return S('()', v[2])
            raise Unsupported("downcast of non-enum")
        if k == 'index':
            raise Unsupported("index projection")
        raise Unsupported("place kind " + k)

    def deref(self, st, v):
        if isinstance(v, tuple) and v[0] == 'ref':
            return v[1]
        if isinstance(v, tuple) and v[0] == 'mref':
            base = st.mem[(v[1], v[2])]
            for idx in v[3]:
                base = self.get_field(base, idx)
            return base
        raise Unsupported("deref of non-reference %r" % (v[:1] if isinstance(v, tuple) else type(v),))

    def get_field(self, v, idx):
        if is_struct(v):
            if idx >= len(v[2]):
                raise Unsupported("field %d of %s" % (idx, v[1]))
            return v[2][idx]
        if isinstance(v, tuple) and v[0] == 'closure':
            return self.get_field(v[2], idx)
        if isinstance(v, Poly):
            raise Unsupported("field access on an atomic ring element (function verified at the wrong level)")
        raise Unsupported("field access on %r" % (v[0] if isinstance(v, tuple) else type(v),))

    def set_field(self, v, path, new):
        if not path:
            return new
        if not is_struct(v):
            raise Unsupported("field write on non-struct")
        f = list(v[2])
        f[path[0]] = self.set_field(f[path[0]], path[1:], new)
        return ('struct', v[1], f)

    def place_addr(self, st, fr, p):
        """resolve a place to (frame, local, path) following mutable references"""
        k = p[0]
        if k == 'local':
            return (fr, p[1], [])
        if k == 'field':
            f, l, path = self.place_addr(st, fr, p[1])
            return (f, l, path + [p[2]])
        if k == 'deref':
            v = self.read_place(st, fr, p[1])
            if isinstance(v, tuple) and v[0] == 'mref':
                return (v[1], v[2], list(v[3]))
            raise Unsupported("write through shared reference")
        raise Unsupported("address of place kind " + k)

    def write_place(self, st, fr, p, val):
        f, l, path = self.place_addr(st, fr, p)
        if not path:
            st.mem[(f, l)] = val
        else:
            if (f, l) not in st.mem:
                raise Unsupported("partial write to unassigned local")
            st.mem[(f, l)] = self.set_field(st.mem[(f, l)], path, val)

    # ------------------------------------------------------------ operands
    def operand(self, st, fr, op):
        k = op[0]
        if k in ('copy', 'move'):
            return self.read_place(st, fr, op[1])
        if k == 'const':
            return self.const(op[1])
        if k == 'fnitem':
            return ('fnitem', op[1])
        raise Unsupported("operand " + k)

    def const(self, text):
        t = text.strip()
        m = re.match(r'^(-?\d+)_(?:u|i)(?:8|16|32|64|128|size)$', t)
        if m:
            return ('int', int(m.group(1)))
        if t in ('true', 'false'):
            return B(t == 'true')
        if t == '()':
            return S('()', [])
        m = re.match(r'^"(.*)"$', t, re.S)
        if m:
            return ('str', m.group(1))
        m = re.match(r'^ZeroSized: (\{closure@[^}]*\})$', t)
        if m:
            for name, f in self.funcs.items():
                if '{closure' in name and f.args and m.group(1) in f.args[0][1]:
                    return ('closure', name, S('{env}', []))
            raise Unsupported("closure body not found for " + m.group(1))
        m = re.match(r'^(?:\w+::)*(\w+)$', t)
        if m:
            k = getattr(self.contracts, 'extra', {}).get('__consts__', {})
            if m.group(1) in k and isinstance(k[m.group(1)], int):
                return ('int', k[m.group(1)])
        return ('opaque', 'const ' + t[:80])

    # ------------------------------------------------------------ rvalues
    def rvalue(self, st, fr, rv, func):
        k = rv[0]
        if k == 'use':
            return self.operand(st, fr, rv[1])
        if k == 'ref':
            return ('ref', self.read_place(st, fr, rv[1]))
        if k == 'mutref':
            f, l, path = self.place_addr(st, fr, rv[1])
            return ('mref', f, l, tuple(path))
        if k == 'struct':
            path = rv[1]
            vals = [self.operand(st, fr, o) for _, o in rv[2]]
            if path.startswith('{closure@'):
                return ('closure', self.closure_name(func, path), S('{env}', vals))
            return S(short_ty(path), vals)
        if k == 'ctor':
            path = rv[1]
            vals = [self.operand(st, fr, o) for o in rv[2]]
            m = re.search(r'::(Some|Ok|Err)$', path)
            if m:
                return ('enum', m.group(1), vals)
            return S(short_ty(path), vals)
        if k == 'unit':
            if rv[1].endswith('::None'):
                return NONE
            return S(short_ty(rv[1]), [])
        if k == 'tuple':
            return S('()', [self.operand(st, fr, o) for o in rv[1]])
        if k == 'discriminant':
            v = self.read_place(st, fr, rv[1])
            if isinstance(v, tuple) and v[0] == 'enum':
                return ('int', {'None': 0, 'Some': 1, 'Ok': 0, 'Err': 1, 'Continue': 0, 'Break': 1}[v[1]])
            if isinstance(v, tuple) and v[0] == 'bool':
                return ('int', int(v[1]))
            raise Unsupported("discriminant of non-enum")
        if k == 'cast':
            v = self.operand(st, fr, rv[1])
            if isinstance(v, tuple) and v[0] in ('int', 'ref', 'mref', 'bool'):
                if v[0] == 'bool':
                    return ('int', int(v[1]))
                return v
            raise Unsupported("cast")
        if k == 'binop':
            a = self.operand(st, fr, rv[2])
            b = self.operand(st, fr, rv[3])
            if a[0] == 'int' and b[0] == 'int':
                op = rv[1]
                x, y = a[1], b[1]
                if op in ('Eq', 'Ne', 'Lt', 'Le', 'Gt', 'Ge'):
                    return B({'Eq': x == y, 'Ne': x != y, 'Lt': x < y, 'Le': x <= y, 'Gt': x > y, 'Ge': x >= y}[op])
                if op in ('Add', 'Sub', 'Mul', 'BitAnd', 'BitOr', 'Shl', 'Shr'):
                    return ('int', {'Add': x + y, 'Sub': x - y, 'Mul': x * y, 'BitAnd': x & y, 'BitOr': x | y,
                                    'Shl': x << y, 'Shr': x >> y}[op])
            if a[0] == 'bool' and b[0] == 'bool' and rv[1] in ('Eq', 'Ne', 'BitAnd', 'BitOr'):
                x, y = a[1], b[1]
                return B({'Eq': x == y, 'Ne': x != y, 'BitAnd': x and y, 'BitOr': x or y}[rv[1]])
            raise Unsupported("binop %s on symbolic operands" % rv[1])
        if k == 'unop':
            a = self.operand(st, fr, rv[2])
            if rv[1] == 'Not' and a[0] == 'bool':
                return B(not a[1])
            raise Unsupported("unop " + rv[1])
        if k == 'array':
            return S('[]', [self.operand(st, fr, o) for o in rv[1]])
        raise Unsupported("rvalue %s: %s" % (k, str(rv[1])[:80]))

    def closure_name(self, func, path):
        # {closure@src/fields/fq2.rs:269:18: 269:21}  -> the MIR function  <func>::{closure#k} whose first arg has that type
        for name, f in self.funcs.items():
            if name.startswith(func.name + '::{closure') and f.args and path in f.args[0][1]:
                return name
        raise Unsupported("closure body not found for " + path)

    # ------------------------------------------------------------ execution
    def run(self, func, args, st):
        """generator of (state, return value) for every feasible path"""
        fr = st.nframes
        st.nframes += 1
        if len(args) != len(func.args):
            raise Unsupported("arity mismatch calling %s" % func.name)
        for (loc, _), v in zip(func.args, args):
            st.mem[(fr, loc)] = v
        yield from self.run_block(func, fr, 0, st, 0)

    def run_block(self, func, fr, bb, st, depth):
        if depth > 2000:
            raise Unsupported("block depth (loop?)")
        while True:
            if bb not in func.blocks:
                raise Unsupported("missing block bb%s" % bb)
            ls = self.loop_specs.get(func.name)
            if ls is not None and bb in ls.heads(func):
                phase = st.loop_phase.get((fr, bb))
                if phase is None:
                    # establishment, then havoc of everything the loop assigns
                    for cname, polys in ls.invariant(self, st, fr, func):
                        self.side.append(('loop_inv_established/' + cname, polys, st.facts.copy(), list(st.trace)))
                    nodes, assigned = ls.heads(func)[bb]
                    for loc in assigned:
                        if isinstance(loc, int):
                            st.mem[(fr, loc)] = ('undef', loc)
                    ls.havoc(self, st, fr, func)
                    st.loop_phase[(fr, bb)] = 'iter'
                    st.trace.append('loop-head(havoc)')
                else:
                    for cname, polys in ls.invariant(self, st, fr, func):
                        self.side.append(('loop_inv_preserved/' + cname, polys, st.facts.copy(), list(st.trace)))
                    return
            stmts, term = func.blocks[bb]
            for s in stmts:
                self.exec_stmt(func, fr, st, s)
            k = term[0]
            if k == 'goto':
                bb = term[1]
                depth += 1
                if depth > 2000:
                    raise Unsupported("loop in function %s" % func.name)
                continue
            if k == 'return':
                self.npaths += 1
                if self.npaths > self.max_paths:
                    raise Unsupported("too many paths")
                yield st, st.mem.get((fr, 0), S('()', []))
                return
            if k == 'switch':
                v = self.operand(st, fr, term[1])
                if v[0] == 'bool':
                    n = int(v[1])
                elif v[0] == 'int':
                    n = v[1]
                else:
                    raise Unsupported("switch on symbolic value")
                tgt = None
                for val, b2 in term[2]:
                    if val == n:
                        tgt = b2
                if tgt is None:
                    tgt = term[3]
                if tgt is None:
                    raise Unsupported("switch without target")
                st.trace.append('bb%d->bb%d' % (bb, tgt))
                bb = tgt
                depth += 1
                continue
            if k == 'assert':
                v = self.operand(st, fr, term[1])
                if v[0] != 'bool':
                    raise Unsupported("assert on symbolic value")
                if v[1] != term[2]:
                    raise Violation("assertion can fail: " + term[4][:80], st)
                bb = term[3]
                depth += 1
                continue
            if k == 'call':
                _, dest, callee, ops, ret_bb, diverges = term
                args = [self.operand(st, fr, o) for o in ops]
                outs = self.do_call(func, fr, st, callee, args)
                if diverges or ret_bb is None:
                    # a diverging call (panic) that is reachable
                    raise Violation("reachable panic: " + callee[:80], st)
                first = True
                outs = list(outs)
                for st2, val in outs:
                    self.write_place(st2, fr, dest, val)
                    yield from self.run_block(func, fr, ret_bb, st2, depth + 1)
                return
            if k == 'diverge':
                if term[1] == 'unreachable':
                    raise Unsupported("unreachable reached")
                raise Violation("reachable " + term[1], st)
            if k == 'raw':
                raise Unsupported("terminator: " + term[1][:100])
            raise Unsupported("terminator kind " + k)

    def exec_stmt(self, func, fr, st, s):
        k = s[0]
        if k == 'nop':
            return
        if k == 'assign':
            val = self.rvalue(st, fr, s[2], func)
            self.write_place(st, fr, s[1], val)
            return
        if k == 'raw':
            raise Unsupported("statement: " + s[1][:100])
        raise Unsupported("statement kind " + k)

    def do_call(self, func, fr, st, callee, args):
        """returns list of (state, value)"""
        return self.contracts.call(self, func, st, callee, args)

    def run_closure(self, st, clos, args):
        """inline a closure body (it is part of the enclosing function's source)"""
        f = self.funcs.get(clos[1])
        if f is None:
            raise Unsupported("closure body missing")
        out = []
        for st2, v in self.run(f, [clos] + list(args), st):
            out.append((st2, v))
        return out


def short_ty(path):
    """canonical struct name of an aggregate: inner types by name, lib.rs newtypes as L<name>"""
    from contracts import norm_types
    p = re.sub(r'::<.*>$', '', path.strip())
    p = norm_types(p)
    p = re.sub(r'<.*>', '', p)
    return p.split('::')[-1]


class LoopSpec:
    """inductive invariant for the (single) loop of a function.
    invariant(interp, st, fr, func) -> [(clause, [polys])] (may raise Violation); havoc(interp, st, fr, func) re-establishes
    the loop-carried locals with fresh symbolic values satisfying the invariant."""
    def __init__(self, invariant, havoc):
        self.invariant = invariant
        self.havoc = havoc
        self._heads = {}

    def heads(self, func):
        if func.name not in self._heads:
            import mirparse
            self._heads[func.name] = mirparse.loops(func)
        return self._heads[func.name]
