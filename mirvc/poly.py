"""Sparse multivariate polynomials over Z (dict monomial -> int).

A monomial is a tuple of (var, exp) pairs sorted by var name.  This is the
normal form used for every polynomial VC of mirvc; z3 is used as an
independent second judge of each identity (see vc.py).
"""
import random

class Poly:
    __slots__ = ("t",)

    def __init__(self, t=None):
        self.t = t if t is not None else {}

    # ---- constructors
    @staticmethod
    def const(c):
        c = int(c)
        return Poly({(): c} if c else {})

    @staticmethod
    def var(name):
        return Poly({((name, 1),): 1})

    # ---- helpers
    @staticmethod
    def _mmul(a, b):
        if not a:
            return b
        if not b:
            return a
        d = dict(a)
        for v, e in b:
            d[v] = d.get(v, 0) + e
        return tuple(sorted((v, e) for v, e in d.items() if e))

    def _coerce(o):
        if isinstance(o, Poly):
            return o
        if isinstance(o, int):
            return Poly.const(o)
        return NotImplemented

    def __add__(self, o):
        o = Poly._coerce(o)
        if o is NotImplemented:
            return o
        r = dict(self.t)
        for m, c in o.t.items():
            v = r.get(m, 0) + c
            if v:
                r[m] = v
            else:
                r.pop(m, None)
        return Poly(r)
    __radd__ = __add__

    def __neg__(self):
        return Poly({m: -c for m, c in self.t.items()})

    def __sub__(self, o):
        o = Poly._coerce(o)
        if o is NotImplemented:
            return o
        return self + (-o)

    def __rsub__(self, o):
        return Poly._coerce(o) - self

    def __mul__(self, o):
        o = Poly._coerce(o)
        if o is NotImplemented:
            return o
        r = {}
        a, b = self.t, o.t
        if len(a) > len(b):
            a, b = b, a
        mm = Poly._mmul
        for m1, c1 in a.items():
            for m2, c2 in b.items():
                m = mm(m1, m2)
                v = r.get(m, 0) + c1 * c2
                if v:
                    r[m] = v
                else:
                    r.pop(m, None)
        return Poly(r)
    __rmul__ = __mul__

    def __pow__(self, n):
        r = Poly.const(1)
        b = self
        while n:
            if n & 1:
                r = r * b
            b = b * b
            n >>= 1
        return r

    def is_zero(self):
        return not self.t

    def is_const(self):
        return all(m == () for m in self.t)

    def const_value(self):
        return self.t.get((), 0)

    def __eq__(self, o):
        o = Poly._coerce(o)
        if o is NotImplemented:
            return False
        return self.t == o.t

    def __hash__(self):
        return hash(frozenset(self.t.items()))

    def vars(self):
        s = set()
        for m in self.t:
            for v, _ in m:
                s.add(v)
        return s

    def nterms(self):
        return len(self.t)

    def mod(self, p):
        r = {}
        for m, c in self.t.items():
            c %= p
            if c:
                r[m] = c
        return Poly(r)

    def degree_in(self, v):
        d = 0
        for m in self.t:
            for w, e in m:
                if w == v and e > d:
                    d = e
        return d

    def coeffs_in(self, v):
        """dict exp -> Poly (coefficients when viewed as a polynomial in v)"""
        out = {}
        for m, c in self.t.items():
            e = 0
            rest = []
            for w, k in m:
                if w == v:
                    e = k
                else:
                    rest.append((w, k))
            d = out.setdefault(e, {})
            rm = tuple(rest)
            d[rm] = d.get(rm, 0) + c
        return {e: Poly({m: c for m, c in d.items() if c}) for e, d in out.items()}

    def subst(self, env):
        """env: var -> Poly|int.  simultaneous substitution"""
        if not any(v in env for v in self.vars()):
            return self
        r = Poly()
        cache = {}
        for m, c in self.t.items():
            term = Poly.const(c)
            rest = []
            for w, k in m:
                if w in env:
                    key = (w, k)
                    if key not in cache:
                        cache[key] = Poly._coerce(env[w]) ** k
                    term = term * cache[key]
                else:
                    rest.append((w, k))
            if rest:
                term = term * Poly({tuple(rest): 1})
            r = r + term
        return r

    def eval(self, env, p):
        """numeric evaluation modulo p; env: var -> int"""
        s = 0
        for m, c in self.t.items():
            t = c % p
            for w, k in m:
                t = t * pow(env[w], k, p) % p
            s = (s + t) % p
        return s

    def __repr__(self):
        if not self.t:
            return "0"
        parts = []
        for m, c in sorted(self.t.items()):
            ms = "*".join(v if e == 1 else "%s^%d" % (v, e) for v, e in m)
            if not ms:
                parts.append(str(c))
            elif c == 1:
                parts.append(ms)
            elif c == -1:
                parts.append("-" + ms)
            else:
                parts.append("%d*%s" % (c, ms))
        s = " + ".join(parts[:12])
        if len(parts) > 12:
            s += " + ...(%d terms)" % len(parts)
        return s

    def to_z3(self, z3, zvars):
        """z3 Int expression"""
        terms = []
        for m, c in self.t.items():
            t = z3.IntVal(c)
            for w, k in m:
                for _ in range(k):
                    t = t * zvars[w]
            terms.append(t)
        if not terms:
            return z3.IntVal(0)
        return z3.Sum(terms)


def V(name):
    return Poly.var(name)

def C(c):
    return Poly.const(c)
