"""Structure of the pairing entry points (C03, C01 identity clause, C16): which inner function sees which arguments, and the
identity handling of every entry point on EVERY representative (x, y, 0).  The Miller loops / final exponentiations are
uninterpreted here (their contracts are C17's obligations and assumption A5); `expect("miller loop cannot produce zero")`
relies on the stated fact that Miller values of valid inputs are non-zero (A5)."""
import re
from vc import FnSpec, Case, ref
from poly import Poly, V, C
from interp import S, Some, NONE, B, is_struct, Violation, Unsupported
from contracts import unref, same_value, canon
from tower import fresh, mk
from specs_lib import W, mkval, inner_of

UF = [
    (r'^G::<\w+>::to_affine$', 'opt'),
    (r'^AffineG::<\w+>::to_jacobian$', 'val'),
    (r'^G2::miller_loop$', 'val'),
    (r'^G2Prepared::miller_loop$', 'val'),
    (r'^Fq12::(final_exponentiation|final_exp)$', 'some'),
    (r'^<G2Prepared as From<G<G2Params>>>::from$', 'val'),
    (r'^pairings::(pairing|fast_pairing)$', 'val'),
    (r'^<(LG1|LG2) as Group>::normalize$', 'unit'),
]
def h_is_zero(cx, interp, func, st, c, args):
    from tower import SYM
    p = unref(interp, st, args[0])
    return [(s, B(z)) for s, z in cx.fork_all_zero(st, SYM.leaves(p[2][2]), 'z')]
EX = {'__uf__': UF, r'^<G<\w+> as Zero>::is_zero$': h_is_zero}
SPECS = []

def ufx(pat, *args):
    return ('ufx', pat, tuple(args))

def g1(name, z=None):
    return S('G', [V(name + 'x'), V(name + 'y'), V(name + 'z') if z is None else z])
def g2(name, z=None):
    zz = fresh('Fq2', name + 'z', ('Fq',)) if z is None else z
    return S('G', [fresh('Fq2', name + 'x', ('Fq',)), fresh('Fq2', name + 'y', ('Fq',)), zz])
ZERO2 = mk('Fq2', [Poly(), Poly()])
ONE12 = None

def one12():
    from tower import SYM
    return SYM.one('Fq12', fresh('Fq12', 'o', ('Fq',)))

def ufo(st, pat, idx):
    hits = [n for n in st.notes if isinstance(n, tuple) and n[0] == 'ufo' and re.search(pat, n[1])]
    return hits[idx] if idx < len(hits) else None

# ---- pairings::pairing : depends on the arguments only through to_affine; identity on either side -> one
def pairing_post(case, st, ret, interp):
    p, q = [unref(interp, st, a) for a in case.args]
    a1 = ufo(st, r'^G::<G1Params>::to_affine$', 0)
    a2 = ufo(st, r'^G::<G2Params>::to_affine$', 0)
    if a1 is None or a2 is None:
        raise Violation("pairing() does not take the affine view of both arguments")
    if not (same_value(st, a1[2][0], p) and same_value(st, a2[2][0], q)):
        raise Violation("to_affine is not applied to the arguments themselves")
    got = canon(interp, st, ret)
    if a1[3] is None or a2[3] is None:
        if not same_value(st, got, one12()):
            raise Violation("pairing with the identity must be one")
        return [('identity_gives_one', [])]
    exp = ufx(r'^Fq12::final_exponentiation$', ufx(r'^G2::miller_loop$', ufx(r'^AffineG::<G2Params>::to_jacobian$', ('ufp', a2[3])),
                                                     ufx(r'^AffineG::<G1Params>::to_jacobian$', ('ufp', a1[3]))))
    if not same_value(st, got, exp):
        raise Violation("pairing() is not final_exponentiation(miller_loop(affine q, affine p)): %s" % (str(got)[:200],))
    return [('function_of_affine_views_only', [])]
SPECS.append(FnSpec('pairings::pairing', None, r'^pairings::pairing$', None, ('Fq', 'Fr'),
                    lambda: [Case('all', [ref(g1('p')), ref(g2('q'))])], pairing_post, extra=EX, prop=('C03', 'C01', 'C16', 'C02')))

# ---- pairings::fast_pairing = final_exp(prepared(q).miller_loop(p))
def fastp_post(case, st, ret, interp):
    p, q = [unref(interp, st, a) for a in case.args]
    exp = ufx(r'^Fq12::final_exp$', ufx(r'^G2Prepared::miller_loop$', ufx(r'^<G2Prepared as From<G<G2Params>>>::from$', q), p))
    if not same_value(st, canon(interp, st, ret), exp):
        raise Violation("fast_pairing() is not final_exp(G2Prepared::from(q).miller_loop(p))")
    return [('structure', [])]
SPECS.append(FnSpec('pairings::fast_pairing', None, r'^pairings::fast_pairing$', None, ('Fq', 'Fr'),
                    lambda: [Case('all', [ref(g1('p')), ref(g2('q'))])], fastp_post, extra=EX, prop=('C03', 'C02')))

# ---- G2Prepared::from(identity, any representative) is the empty table
def from_post(case, st, ret, interp):
    got = canon(interp, st, ret)
    if not (is_struct(got) and got[1] == 'G2Prepared' and got[2][0] == ('vec', ())):
        raise Violation("G2Prepared::from(identity) must be the empty coefficient table")
    return [('identity_gives_empty_table', [])]
SPECS.append(FnSpec('pairings::G2Prepared::from(identity)', 'src/pairings.rs', r'<impl>::from$', r'-> G2Prepared$', ('Fq', 'Fr'),
                    lambda: [Case('identity', [g2('q', ZERO2)])], from_post, extra=EX, prop=('C03', 'C01', 'C16', 'C02')))

# ---- G2Prepared::miller_loop: identity G1 argument (any x, y) or empty table -> one
def ml_cases():
    return [Case('g1_identity', [ref(S('G2Prepared', [('vecsym', 'coeffs')])), ref(g1('p', Poly()))]),
            Case('empty_table', [ref(S('G2Prepared', [('vec', ())])), ref(g1('p'))])]
def ml_post(case, st, ret, interp):
    if not same_value(st, canon(interp, st, ret), one12()):
        raise Violation("prepared Miller loop must return one for the identity (any representative) / the empty table")
    return [('identity_gives_one', [])]
SPECS.append(FnSpec('pairings::G2Prepared::miller_loop(identity)', 'src/pairings.rs', r'<impl>::miller_loop$', r'^\(&G2Prepared', ('Fq', 'Fr'),
                    ml_cases, ml_post, extra=EX, prop=('C03', 'C01', 'C16', 'C02')))

# ---- lib.rs entry points
def lib_fast_post(case, st, ret, interp):
    calls = [n for n in st.notes if isinstance(n, tuple) and n[0] == 'ufcall' and 'normalize' in n[1]]
    if len(calls) != 2:
        raise Violation("fast_pairing() must normalise both arguments (found %d normalize calls)" % len(calls))
    exp_inner = ufx(r'^pairings::fast_pairing$', inner_of(case.aux['vals'][0]), inner_of(case.aux['vals'][1]))
    got = canon(interp, st, ret)
    if not (is_struct(got) and got[1] == 'LGt' and same_value(st, got[2][0], exp_inner)):
        raise Violation("fast_pairing() is not Gt(pairings::fast_pairing(p, q))")
    return [('structure', [])]
def lib_fast_cases():
    vals = [mkval('LG1', 'p'), mkval('LG2', 'q')]
    return [Case('all', list(vals), None, {'vals': vals})]
SPECS.append(FnSpec('lib::fast_pairing', None, r'^fast_pairing$', r'^\(LG1, LG2\) -> LGt$', ('Fq', 'Fr', 'Fq12'), lib_fast_cases, lib_fast_post, extra=EX, prop=('C03', 'C02')))

def lib_prep_from_post(case, st, ret, interp):
    calls = [n for n in st.notes if isinstance(n, tuple) and n[0] == 'ufcall' and 'normalize' in n[1]]
    if len(calls) != 1:
        raise Violation("G2Prepared::from(G2) must normalise its argument")
    exp = ufx(r'^<G2Prepared as From<G<G2Params>>>::from$', inner_of(case.aux['vals'][0]))
    if not same_value(st, canon(interp, st, ret), exp):
        raise Violation("G2Prepared::from(G2) is not the inner preparation of the normalised point")
    return [('structure', [])]
def lib_prep_from_cases():
    vals = [mkval('LG2', 'q')]
    return [Case('all', list(vals), None, {'vals': vals})]
SPECS.append(FnSpec('lib::G2Prepared::from', 'src/lib.rs', r'<impl>::from$', r'^\(LG2\) -> G2Prepared$', ('Fq', 'Fr', 'Fq12'), lib_prep_from_cases, lib_prep_from_post, extra=EX, prop=('C03', 'C02')))

def lib_prep_pairing_post(case, st, ret, interp):
    calls = [n for n in st.notes if isinstance(n, tuple) and n[0] == 'ufcall' and 'normalize' in n[1]]
    if len(calls) != 1:
        raise Violation("G2Prepared::pairing must normalise the G1 argument")
    prep, p = case.aux['vals']
    exp = W('LGt', ufx(r'^Fq12::final_exp$', ufx(r'^G2Prepared::miller_loop$', prep, inner_of(p))))
    if not same_value(st, canon(interp, st, ret), exp):
        raise Violation("G2Prepared::pairing is not Gt(final_exp(self.miller_loop(normalised p)))")
    return [('structure', [])]
def lib_prep_pairing_cases():
    prep = S('G2Prepared', [('vecsym', 'coeffs')])
    p = mkval('LG1', 'p')
    return [Case('all', [ref(prep), ref(p)], None, {'vals': [prep, p]})]
SPECS.append(FnSpec('lib::G2Prepared::pairing', 'src/lib.rs', r'<impl>::pairing$', r'^\(&G2Prepared, &LG1\) -> LGt$', ('Fq', 'Fr', 'Fq12'), lib_prep_pairing_cases, lib_prep_pairing_post, extra=EX, prop=('C03', 'C02')))
