"""Function specs for fields/fq2.rs, fq4.rs, fq12.rs (layer L3) and their operator forms."""
from vc import FnSpec, Case, expect_value, simple_cases, ref
from poly import Poly, V, C
from interp import S, Some, NONE, B, is_struct, Violation
from contracts import unref, spec_inverse_fraction
import tower
from tower import SYM, fresh, mk
from facts import Q

A = SYM
HALF = (Q + 1) // 2
SPECS = []

def add(*a, **k):
    SPECS.append(FnSpec(*a, **k))

FILES = {'Fq2': 'src/fields/fq2.rs', 'Fq4': 'src/fields/fq4.rs', 'Fq12': 'src/fields/fq12.rs'}
PROPS = {'Fq2': ('C12',), 'Fq4': ('C17',), 'Fq12': ('C17', 'C11')}

def tyre(ty):
    return {'Fq2': r'fq2::Fq2', 'Fq4': r'Fq4', 'Fq12': r'Fq12'}[ty]

for ty in ('Fq2', 'Fq4', 'Fq12'):
    f = FILES[ty]
    low = ty.lower()
    at = ('Fq',)
    pr = PROPS[ty]
    T = tyre(ty)
    un = r'^\(&%s\) -> %s$' % (T, T)
    bi = r'^\(&%s, &%s\) -> %s$' % (T, T, T)
    add('%s::add_inplace' % low, f, r'<impl>::add_inplace$', bi, at, simple_cases([ty, ty], at), expect_value(ty, lambda a, b, ty=ty: A.add(ty, a, b)), prop=pr)
    add('%s::sub_inplace' % low, f, r'<impl>::sub_inplace$', bi, at, simple_cases([ty, ty], at), expect_value(ty, lambda a, b, ty=ty: A.sub(ty, a, b)), prop=pr)
    add('%s::neg_inplace' % low, f, r'<impl>::neg_inplace$', un, at, simple_cases([ty], at), expect_value(ty, lambda a, ty=ty: A.neg(ty, a)), prop=pr)
    add('%s::mul_inplace' % low, f, r'<impl>::mul_inplace$', bi, at, simple_cases([ty, ty], at), expect_value(ty, lambda a, b, ty=ty: A.mul(ty, a, b)), prop=pr)
    add('%s::double' % low, f, r'<impl>::double$', un, at, simple_cases([ty], at), expect_value(ty, lambda a, ty=ty: A.dbl(ty, a)), prop=pr)
    add('%s::triple' % low, f, r'<impl>::triple$', un, at, simple_cases([ty], at), expect_value(ty, lambda a, ty=ty: A.scalar(ty, a, 3)), prop=pr)
    add('%s::squared' % low, f, r'<impl>::squared$', un, at, simple_cases([ty], at), expect_value(ty, lambda a, ty=ty: A.mul(ty, a, a)), prop=pr)
    add('%s::zero' % low, f, r'<impl>::zero$', r'^\(\) -> ', at, lambda: [Case('all', [])],
        expect_value(ty, lambda ty=ty: A.zero(ty, fresh(ty, 'z', ('Fq',)))), prop=pr)
    add('%s::one' % low, f, r'<impl>::one$', r'^\(\) -> ', at, lambda: [Case('all', [])],
        expect_value(ty, lambda ty=ty: A.one(ty, fresh(ty, 'z', ('Fq',)))), prop=pr)
    if ty != 'Fq12':
        add('%s::unitary_inverse' % low, f, r'<impl>::unitary_inverse$', un, at, simple_cases([ty], at), expect_value(ty, lambda a, ty=ty: A.conj(ty, a)), prop=pr)
    add('%s::mul_by_nonresidue' % low, f, r'<impl>::mul_by_nonresidue$', un, at, simple_cases([ty], at),
        expect_value(ty, lambda a, ty=ty: A.nonresidue_times(ty, a) if ty != 'Fq12' else
                     mk('Fq12', [A.nonresidue_times('Fq4', a[2][2]), a[2][0], a[2][1]])), prop=pr)

    # is_zero: true iff every coordinate is zero
    def is_zero_post(case, st, ret, interp, ty=ty):
        x = unref(interp, st, case.args[0])
        leaves = A.leaves(x)
        allz = all(st.facts.is_zero(p) for p in leaves)
        somenz = any(st.facts.is_nonzero(p) for p in leaves)
        if ret[1] and not allz:
            raise Violation("is_zero returned true for a value with a non-zero coordinate")
        if (not ret[1]) and not somenz:
            raise Violation("is_zero returned false although no coordinate is known to be non-zero")
        return [('post', [])]
    add('%s::is_zero' % low, f, r'<impl>::is_zero$', r'^\(&%s\) -> bool$' % T, at, simple_cases([ty], at), is_zero_post, prop=pr)

    # derived ==  (structural equality of all coordinates)
    def eq_post(case, st, ret, interp, ty=ty):
        a = unref(interp, st, case.args[0]); b = unref(interp, st, case.args[1])
        d = A.eq_components(ty, a, b)
        allz = all(st.facts.is_zero(p) for p in d)
        somenz = any(st.facts.is_nonzero(p) for p in d)
        if ret[1] and not allz:
            raise Violation("== returned true for values that differ in a coordinate")
        if (not ret[1]) and not somenz:
            raise Violation("== returned false for values not known to differ")
        return [('post', [])]
    add('%s::eq' % low, f, r'<impl>::eq$', r'^\(&%s, &%s\) -> bool$' % (T, T), at, simple_cases([ty, ty], at), eq_post, prop=pr)

    # inverse: None iff x = 0 ; Some(y) with x*y = 1
    lvl = {'Fq2': ('Fq',), 'Fq4': ('Fq2', 'Fq'), 'Fq12': ('Fq4', 'Fq2', 'Fq')}[ty]
    def inv_cases(ty=ty, lvl=lvl):
        x = fresh(ty, 'a', lvl)
        num, den = spec_inverse_fraction(ty, x)
        def setup(facts, den=den):
            # spec case "x != 0": by A2 the norm of a non-zero element is non-zero
            facts.assume_nonzero(den)
        return [Case('zero', [ref(A.zero(ty, x))]), Case('nonzero', [ref(x)], setup)]
    def inv_post(case, st, ret, interp, ty=ty):
        x = unref(interp, st, case.args[0])
        if case.name == 'zero':
            if ret[1] != 'None':
                raise Violation("inverse(0) must be None")
            return [('none_iff_zero', [])]
        if ret[1] != 'Some':
            raise Violation("inverse(x) is None for x != 0")
        y = ret[2][0]
        prod = A.mul(ty, x, y)
        return [('inverse_times_self_is_one', A.eq_components(ty, prod, A.one(ty, x)))]
    add('%s::inverse' % low, f, r'<impl>::inverse$', r'^\(&%s\) -> Option<' % T, lvl, inv_cases, inv_post, prop=pr)

# ---- Fq2-only
f2 = FILES['Fq2']
add('fq2::new', f2, r'<impl>::new$', None, ('Fq',), simple_cases(['Fq', 'Fq'], ('Fq',), by_ref=False),
    expect_value('Fq2', lambda a, b: mk('Fq2', [a, b])), prop=('C12',))
add('fq2::scale', f2, r'<impl>::scale$', None, ('Fq',), simple_cases(['Fq2', 'Fq'], ('Fq',)),
    expect_value('Fq2', lambda a, s: mk('Fq2', [a[2][0] * s, a[2][1] * s])), prop=('C12',))
add('fq2::div2', f2, r'<impl>::div2$', None, ('Fq',), simple_cases(['Fq2'], ('Fq',)),
    expect_value('Fq2', lambda a: A.scalar('Fq2', a, HALF)), prop=('C12',))
add('fq2::i', f2, r'<impl>::i$', None, ('Fq',), lambda: [Case('all', [])],
    expect_value('Fq2', lambda: mk('Fq2', [Poly(), C(1)])), prop=('C12',))
def _proj_post(idx):
    def post(case, st, ret, interp):
        x = unref(interp, st, case.args[0])
        r = unref(interp, st, ret)
        return [('post', [r - x[2][idx]])]
    return post
add('fq2::real', f2, r'<impl>::real$', None, ('Fq',), simple_cases(['Fq2'], ('Fq',)), _proj_post(0), prop=('C12',))
add('fq2::imaginary', f2, r'<impl>::imaginary$', None, ('Fq',), simple_cases(['Fq2'], ('Fq',)), _proj_post(1), prop=('C12',))

# ---- Fq4-only
f4 = FILES['Fq4']
add('fq4::new', f4, r'<impl>::new$', None, ('Fq',), simple_cases(['Fq2', 'Fq2'], ('Fq',), by_ref=False),
    expect_value('Fq4', lambda a, b: mk('Fq4', [a, b])), prop=('C17',))
add('fq4::scale', f4, r'<impl>::scale$', None, ('Fq',), simple_cases(['Fq4', 'Fq2'], ('Fq',)),
    expect_value('Fq4', lambda a, s: mk('Fq4', [A.mul('Fq2', a[2][0], s), A.mul('Fq2', a[2][1], s)])), prop=('C17',))
add('fq4::scale_fq', f4, r'<impl>::scale_fq$', None, ('Fq',), simple_cases(['Fq4', 'Fq'], ('Fq',)),
    expect_value('Fq4', lambda a, s: A.mul('Fq4', a, s)), prop=('C17',))
def mul1_cases():
    a = fresh('Fq4', 'a', ('Fq',)); b = fresh('Fq4', 'b', ('Fq',))
    b = mk('Fq4', [A.zero('Fq2', b[2][0]), b[2][1]])     # precondition: b.c0 == 0
    return [Case('sparse', [ref(a), ref(b)])]
add('fq4::mul_1', f4, r'<impl>::mul_1$', None, ('Fq',), mul1_cases, expect_value('Fq4', lambda a, b: A.mul('Fq4', a, b)), prop=('C17',))

# ---- Fq12-only
f12 = FILES['Fq12']
add('fq12::new', f12, r'<impl>::new$', None, ('Fq',), simple_cases(['Fq4', 'Fq4', 'Fq4'], ('Fq',), by_ref=False),
    expect_value('Fq12', lambda a, b, c: mk('Fq12', [a, b, c])), prop=('C17',))
add('fq12::scale', f12, r'<impl>::scale$', None, ('Fq',), simple_cases(['Fq12', 'Fq4'], ('Fq',)),
    expect_value('Fq12', lambda a, s: mk('Fq12', [A.mul('Fq4', c, s) for c in a[2]])), prop=('C17',))
def mul015_cases():
    a = fresh('Fq12', 'a', ('Fq',)); b = fresh('Fq12', 'b', ('Fq',))
    c2 = b[2][2]
    b = mk('Fq12', [b[2][0], A.zero('Fq4', b[2][1]), mk('Fq4', [A.zero('Fq2', c2[2][0]), c2[2][1]])])   # b.c1 == 0, b.c2 == (0,*)
    return [Case('sparse', [ref(a), ref(b)])]
add('fq12::mul_015', f12, r'<impl>::mul_015$', None, ('Fq',), mul015_cases, expect_value('Fq12', lambda a, b: A.mul('Fq12', a, b)), prop=('C17',))
