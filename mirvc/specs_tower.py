"""Function specs for fields/fq2.rs, fq4.rs, fq12.rs (layer L3).

Every `oracle` is written against the extension-field definition of the property statements
(tower.py) and is used twice: symbolically as the postcondition of the MIR body, numerically as the
replay oracle for the real function reached through the hook driver.
"""
from vc import FnSpec, Case, expect_value, simple_cases, ref
from poly import Poly, V, C
from interp import S, Some, NONE, B, is_struct, Violation
from contracts import unref, spec_inverse_fraction
import tower
from tower import SYM, fresh, mk
from facts import Q

HALF = (Q + 1) // 2
SPECS = []

def add(fid, file, name, sig, atoms, cases, oracle, ty, prop, hook=None, post=None, pre_num=None):
    SPECS.append(FnSpec(fid, file, name, sig, atoms, cases, post or expect_value(ty, oracle), prop=prop,
                        hook=hook, oracle=oracle, pre_num=pre_num))

FILES = {'Fq2': 'src/fields/fq2.rs', 'Fq4': 'src/fields/fq4.rs', 'Fq12': 'src/fields/fq12.rs'}
PROPS = {'Fq2': ('C12',), 'Fq4': ('C17',), 'Fq12': ('C17', 'C11')}
TYRE = {'Fq2': r'Fq2', 'Fq4': r'Fq4', 'Fq12': r'Fq12'}

def nr12(A, a):
    return mk('Fq12', [A.nonresidue_times('Fq4', a[2][2]), a[2][0], a[2][1]])

for ty in ('Fq2', 'Fq4', 'Fq12'):
    f = FILES[ty]
    low = ty.lower()
    at = ('Fq',)
    pr = PROPS[ty]
    T = TYRE[ty]
    un = r'^\(&%s\) -> %s$' % (T, T)
    bi = r'^\(&%s, &%s\) -> %s$' % (T, T, T)
    c1 = simple_cases([ty], at)
    c2 = simple_cases([ty, ty], at)
    h = lambda m, n=1, ty=ty, low=low: ('%s::%s' % (low, m), [ty] * n, ty)
    add(low + '::add_inplace', f, r'<impl>::add_inplace$', bi, at, c2, lambda A, a, b, ty=ty: A.add(ty, a, b), ty, pr, h('add', 2))
    add(low + '::sub_inplace', f, r'<impl>::sub_inplace$', bi, at, c2, lambda A, a, b, ty=ty: A.sub(ty, a, b), ty, pr, h('sub', 2))
    add(low + '::neg_inplace', f, r'<impl>::neg_inplace$', un, at, c1, lambda A, a, ty=ty: A.neg(ty, a), ty, pr, h('neg'))
    add(low + '::mul_inplace', f, r'<impl>::mul_inplace$', bi, at, c2, lambda A, a, b, ty=ty: A.mul(ty, a, b), ty, pr, h('mul', 2))
    add(low + '::double', f, r'<impl>::double$', un, at, c1, lambda A, a, ty=ty: A.dbl(ty, a), ty, pr, h('double'))
    add(low + '::triple', f, r'<impl>::triple$', un, at, c1, lambda A, a, ty=ty: A.scalar(ty, a, 3), ty, pr, h('triple'))
    add(low + '::squared', f, r'<impl>::squared$', un, at, c1, lambda A, a, ty=ty: A.mul(ty, a, a), ty, pr, h('squared'))
    add(low + '::zero', f, r'<impl>::zero$', r'^\(\) -> ', at, lambda: [Case('all', [])], lambda A, ty=ty: A.zero(ty), ty, pr, h('zero', 0))
    add(low + '::one', f, r'<impl>::one$', r'^\(\) -> ', at, lambda: [Case('all', [])], lambda A, ty=ty: A.one(ty), ty, pr, h('one', 0))
    if ty != 'Fq12':
        add(low + '::unitary_inverse', f, r'<impl>::unitary_inverse$', un, at, c1, lambda A, a, ty=ty: A.conj(ty, a), ty, pr, h('unitary_inverse'))
        add(low + '::mul_by_nonresidue', f, r'<impl>::mul_by_nonresidue$', un, at, c1, lambda A, a, ty=ty: A.nonresidue_times(ty, a), ty, pr, h('mul_by_nonresidue'))
    else:
        add(low + '::mul_by_nonresidue', f, r'<impl>::mul_by_nonresidue$', un, at, c1, nr12, ty, pr, h('mul_by_nonresidue'))

    # is_zero: true iff every coordinate is zero
    def is_zero_post(case, st, ret, interp, ty=ty):
        x = unref(interp, st, case.args[0])
        leaves = SYM.leaves(x)
        allz = all(st.facts.is_zero(p) for p in leaves)
        somenz = any(st.facts.is_nonzero(p) for p in leaves)
        if ret[1] and not allz:
            raise Violation("is_zero returned true for a value with a non-zero coordinate")
        if (not ret[1]) and not somenz:
            raise Violation("is_zero returned false although no coordinate is known to be non-zero")
        return [('post', [])]
    add(low + '::is_zero', f, r'<impl>::is_zero$', r'^\(&%s\) -> bool$' % T, at, c1,
        lambda A, a: all(x == 0 for x in A.leaves(a)), 'bool', pr, (low + '::is_zero', [ty], 'bool'), post=is_zero_post)

    # is_one: only present when a type overrides the default of num_traits::One (`*self == Self::one()`); if it is present it must
    # still decide equality with one (callers such as G::to_affine go through the trait contract)
    def is_one_post(case, st, ret, interp, ty=ty):
        x = unref(interp, st, case.args[0])
        d = SYM.eq_components(ty, x, SYM.one(ty, x))
        allz = all(st.facts.is_zero(p) for p in d)
        somenz = any(st.facts.is_nonzero(p) for p in d)
        if ret[1] and not allz:
            raise Violation("is_one returned true for a value not known to equal one")
        if (not ret[1]) and not somenz:
            raise Violation("is_one returned false for a value not known to differ from one")
        return [('post', [])]
    add(low + '::is_one', f, r'<impl>::is_one$', r'^\(&%s\) -> bool$' % T, at, c1,
        lambda A, a, ty=ty: A.leaves(a) == A.leaves(A.one(ty)), 'bool', pr, None, post=is_one_post)
    SPECS[-1].optional = True

    # derived == : structural equality of all coordinates
    def eq_post(case, st, ret, interp, ty=ty):
        a = unref(interp, st, case.args[0]); b = unref(interp, st, case.args[1])
        d = SYM.eq_components(ty, a, b)
        allz = all(st.facts.is_zero(p) for p in d)
        somenz = any(st.facts.is_nonzero(p) for p in d)
        if ret[1] and not allz:
            raise Violation("== returned true for values that differ in a coordinate")
        if (not ret[1]) and not somenz:
            raise Violation("== returned false for values not known to differ")
        return [('post', [])]
    add(low + '::eq', f, r'<impl>::eq$', r'^\(&%s, &%s\) -> bool$' % (T, T), at, c2,
        lambda A, a, b: A.leaves(a) == A.leaves(b), 'bool', pr, (low + '::eq', [ty, ty], 'bool'), post=eq_post)

    # inverse: None iff x = 0 ; Some(y) with x*y = 1
    lvl = {'Fq2': ('Fq',), 'Fq4': ('Fq2', 'Fq'), 'Fq12': ('Fq4', 'Fq2', 'Fq')}[ty]
    def inv_cases(ty=ty, lvl=lvl):
        x = fresh(ty, 'a', lvl)
        num, den = spec_inverse_fraction(ty, x)
        def setup(facts, den=den):
            # spec case "x != 0": by A2 the norm of a non-zero element is non-zero
            facts.assume_nonzero(den)
        return [Case('zero', [ref(SYM.zero(ty, x))]), Case('nonzero', [ref(x)], setup)]
    def inv_post(case, st, ret, interp, ty=ty):
        x = unref(interp, st, case.args[0])
        if case.name == 'zero':
            if ret[1] != 'None':
                raise Violation("inverse(0) must be None")
            return [('none_iff_zero', [])]
        if ret[1] != 'Some':
            raise Violation("inverse(x) is None for x != 0")
        y = ret[2][0]
        prod = SYM.mul(ty, x, y)
        return [('inverse_times_self_is_one', SYM.eq_components(ty, prod, SYM.one(ty, x)))]
    def inv_oracle(A, a, ty=ty):
        import sm9spec
        if sm9spec.tw_is_zero(a):
            return None
        return sm9spec.tw_inv(ty, a)
    add(low + '::inverse', f, r'<impl>::inverse$', r'^\(&%s\) -> Option<' % T, lvl, inv_cases, inv_oracle, ty, pr,
        (low + '::inverse', [ty], 'opt:' + ty), post=inv_post)

# ---- Fq2-only
f2 = FILES['Fq2']
add('fq2::new', f2, r'<impl>::new$', None, ('Fq',), simple_cases(['Fq', 'Fq'], ('Fq',), by_ref=False),
    lambda A, a, b: mk('Fq2', [a, b]), 'Fq2', ('C12',))
add('fq2::scale', f2, r'<impl>::scale$', None, ('Fq',), simple_cases(['Fq2', 'Fq'], ('Fq',)),
    lambda A, a, s: A.mul('Fq2', a, s), 'Fq2', ('C12',), ('fq2::scale', ['Fq2', 'Fq'], 'Fq2'))
add('fq2::div2', f2, r'<impl>::div2$', None, ('Fq',), simple_cases(['Fq2'], ('Fq',)),
    lambda A, a: A.scalar('Fq2', a, HALF), 'Fq2', ('C12',), ('fq2::div2', ['Fq2'], 'Fq2'))
add('fq2::i', f2, r'<impl>::i$', None, ('Fq',), lambda: [Case('all', [])],
    lambda A: mk('Fq2', [A.L.zero(), A.L.one()]), 'Fq2', ('C12',), ('fq2::i', [], 'Fq2'))
def _proj_post(idx):
    def post(case, st, ret, interp):
        x = unref(interp, st, case.args[0])
        r = unref(interp, st, ret)
        return [('post', [r - x[2][idx]])]
    return post
add('fq2::real', f2, r'<impl>::real$', None, ('Fq',), simple_cases(['Fq2'], ('Fq',)), None, 'Fq', ('C12',), post=_proj_post(0))
add('fq2::imaginary', f2, r'<impl>::imaginary$', None, ('Fq',), simple_cases(['Fq2'], ('Fq',)), None, 'Fq', ('C12',), post=_proj_post(1))

# ---- Fq4-only
f4 = FILES['Fq4']
add('fq4::new', f4, r'<impl>::new$', None, ('Fq',), simple_cases(['Fq2', 'Fq2'], ('Fq',), by_ref=False),
    lambda A, a, b: mk('Fq4', [a, b]), 'Fq4', ('C17',))
add('fq4::scale', f4, r'<impl>::scale$', None, ('Fq',), simple_cases(['Fq4', 'Fq2'], ('Fq',)),
    lambda A, a, s: mk('Fq4', [A.mul('Fq2', a[2][0], s), A.mul('Fq2', a[2][1], s)]), 'Fq4', ('C17',), ('fq4::scale', ['Fq4', 'Fq2'], 'Fq4'))
add('fq4::scale_fq', f4, r'<impl>::scale_fq$', None, ('Fq',), simple_cases(['Fq4', 'Fq'], ('Fq',)),
    lambda A, a, s: A.mul('Fq4', a, s), 'Fq4', ('C17',), ('fq4::scale_fq', ['Fq4', 'Fq'], 'Fq4'))
def mul1_cases():
    a = fresh('Fq4', 'a', ('Fq',)); b = fresh('Fq4', 'b', ('Fq',))
    b = mk('Fq4', [SYM.zero('Fq2', b[2][0]), b[2][1]])     # precondition: b.c0 == 0
    return [Case('sparse', [ref(a), ref(b)])]
def mul1_pre(A, a, b):
    return [a, mk('Fq4', [A.zero('Fq2'), b[2][1]])]
add('fq4::mul_1', f4, r'<impl>::mul_1$', None, ('Fq',), mul1_cases, lambda A, a, b: A.mul('Fq4', a, b), 'Fq4', ('C17',),
    ('fq4::mul_1', ['Fq4', 'Fq4'], 'Fq4'), pre_num=mul1_pre)

# ---- Fq12-only
f12 = FILES['Fq12']
add('fq12::new', f12, r'<impl>::new$', None, ('Fq',), simple_cases(['Fq4', 'Fq4', 'Fq4'], ('Fq',), by_ref=False),
    lambda A, a, b, c: mk('Fq12', [a, b, c]), 'Fq12', ('C17',))
add('fq12::scale', f12, r'<impl>::scale$', None, ('Fq',), simple_cases(['Fq12', 'Fq4'], ('Fq',)),
    lambda A, a, s: mk('Fq12', [A.mul('Fq4', c, s) for c in a[2]]), 'Fq12', ('C17',), ('fq12::scale', ['Fq12', 'Fq4'], 'Fq12'))
def mul015_cases():
    a = fresh('Fq12', 'a', ('Fq',)); b = fresh('Fq12', 'b', ('Fq',))
    c2 = b[2][2]
    b = mk('Fq12', [b[2][0], SYM.zero('Fq4', b[2][1]), mk('Fq4', [SYM.zero('Fq2', c2[2][0]), c2[2][1]])])   # b.c1 == 0, b.c2 == (0,*)
    return [Case('sparse', [ref(a), ref(b)])]
def mul015_pre(A, a, b):
    return [a, mk('Fq12', [b[2][0], A.zero('Fq4'), mk('Fq4', [A.zero('Fq2'), b[2][2][2][1]])])]
add('fq12::mul_015', f12, r'<impl>::mul_015$', None, ('Fq',), mul015_cases, lambda A, a, b: A.mul('Fq12', a, b), 'Fq12', ('C17',),
    ('fq12::mul_015', ['Fq12', 'Fq12'], 'Fq12'), pre_num=mul015_pre)
