"""Frobenius maps, Fq12::pow (for the exponents the addition chains use) and both final exponentiations."""
from vc import FnSpec, Case, expect_value, simple_cases, ref
from poly import Poly, V, C
from interp import S, Some, NONE, B, is_struct, Violation, Unsupported
from contracts import unref, frobenius_spec
import tower
from tower import SYM, fresh, mk
from facts import Q
import consts

R_ORDER = 0xB640000002A3A6F1D603AB4FF58EC74449F2934B18EA8BEEE56EE19CD69ECF25
PHI12 = Q**4 - Q**2 + 1
FULL = Q**12 - 1
assert PHI12 % R_ORDER == 0 and FULL % PHI12 == 0
SPECS = []
K = consts.parse_consts()
EXTRA = {'__consts__': K}

def add(fid, file, name, sig, atoms, cases, oracle, ty, prop, hook=None, post=None, pre_num=None, extra=None, max_paths=400, search_max=None):
    SPECS.append(FnSpec(fid, file, name, sig, atoms, cases, post or expect_value(ty, oracle), prop=prop,
                        hook=hook, oracle=oracle, pre_num=pre_num, extra=extra if extra is not None else EXTRA, max_paths=max_paths, search_max=search_max))

# ---------------------------------------------------------------- Frobenius
f4 = 'src/fields/fq4.rs'; f12 = 'src/fields/fq12.rs'
def frob_cases(ty, codes):
    def cases():
        x = fresh(ty, 'a', ('Fq',))
        return [Case('power%d' % c, [ref(x), ('int', c)]) for c in codes]
    return cases
def frob_num_pre(codes):
    def pre(A, a, k):
        return [a, k]
    return pre
add('fq4::frobenius_map', f4, r'<impl>::frobenius_map$', None, ('Fq',), frob_cases('Fq4', [10, 11, 12, 21, 22, 30, 31, 32]),
    lambda A, a, k: frobenius_spec(A, 'Fq4', a, k[1] if isinstance(k, tuple) else k, Q), 'Fq4', ('C17',),
    hook=('fq4::frobenius_map', ['Fq4', 'int:10,11,12,21,22,30,31,32'], 'Fq4'), search_max=64)
add('fq12::frobenius_map', f12, r'<impl>::frobenius_map$', None, ('Fq',), frob_cases('Fq12', [1, 2, 3, 6]),
    lambda A, a, k: frobenius_spec(A, 'Fq12', a, k[1] if isinstance(k, tuple) else k, Q), 'Fq12', ('C17',),
    hook=('fq12::frobenius_map', ['Fq12', 'int:1,2,3,6'], 'Fq12'), search_max=16)

# ---------------------------------------------------------------- exponent domain
fp = 'src/pairings.rs'
MONO = dict(EXTRA)
MONO['__monomial__'] = True

def mono_exp(p):
    """exponent e of a value X^e (coefficient must be 1)"""
    if not isinstance(p, Poly) or len(p.t) != 1:
        raise Violation("result is not a power of the input")
    (m, c), = p.t.items()
    if c != 1:
        raise Violation("result is not a power of the input (coefficient %d)" % c)
    if m == ():
        return 0
    if len(m) != 1 or m[0][0] != 'X':
        raise Violation("result is not a power of the input")
    return m[0][1]

def xcase(name='nonzero'):
    def setup(facts):
        facts.assume_nonzero(V('X'))
    return Case(name, [ref(V('X'))], setup)

EXPONENTS = [0, 1, 2, 3, 4, 5, 6, 7, 8, 9, 12, 16, 255, 256, (1 << 64) - 1, 1 << 64, (1 << 127), (1 << 128) - 1] + \
    [K[n] for n in ('SM9_S', 'SM9_A2', 'SM9_A3', 'SM9_NINE') if n in K]
def pow_cases():
    return [Case('exp_%x' % e, [ref(V('X')), ('int', e)]) for e in dict.fromkeys(EXPONENTS)]
def pow_post(case, st, ret, interp):
    e = case.args[1][1]
    got = mono_exp(ret)
    if got != e:
        raise Violation("pow(x, %d) returned x^%d" % (e, got))
    return [('post', [])]
def pow_oracle(A, a, e):
    return tower.pow_num(A, 'Fq12', a, e)
add('pairings::Fq12::pow', fp, r'<impl>::pow$', r'u128', ('Fq12',), pow_cases, pow_oracle, 'Fq12', ('C17', 'C11'), post=pow_post, extra=MONO, max_paths=4000,
    hook=('pairings::fq12_pow', ['Fq12', 'u128'], 'Fq12'), search_max=40)

def fe_first_cases():
    return [Case('zero', [ref(Poly())]), xcase()]
def fe_first_post(case, st, ret, interp):
    if case.name == 'zero':
        if ret[1] != 'None':
            raise Violation("first chunk of 0 must be None")
        return [('none_iff_zero', [])]
    if ret[1] != 'Some':
        raise Violation("first chunk returned None for a non-zero element")
    e = mono_exp(ret[2][0])
    want = (Q**6 - 1) * (Q**2 + 1)
    if (e - want) % FULL != 0:
        raise Violation("first chunk exponent is not (q^6-1)(q^2+1) modulo q^12-1")
    return [('exponent', [])]
add('pairings::first_chunk', fp, r'<impl>::final_exponentiation_first_chunk$', None, ('Fq12',), fe_first_cases, None, 'Fq12', ('C17',),
    post=fe_first_post, extra=MONO)

def last_post(case, st, ret, interp):
    e = mono_exp(ret)
    if (e - PHI12 // R_ORDER) % PHI12 != 0:
        raise Violation("hard part exponent is not (q^4-q^2+1)/r modulo q^4-q^2+1 (got residue %x)" % ((e - PHI12 // R_ORDER) % PHI12))
    return [('exponent', [])]
def pow_contract(self, interp, func, st, c, args):
    # contract of Fq12::pow established by the obligation pairings::Fq12::pow (and the Verus loop proof): x^k
    a = [unref(interp, st, x) for x in args]
    if not (isinstance(a[1], tuple) and a[1][0] == 'int' and isinstance(a[0], Poly)):
        raise Unsupported("pow contract shape")
    return [(st, a[0] ** a[1][1])]
add('pairings::last_chunk', fp, r'<impl>::final_exponentiation_last_chunk$', None, ('Fq12',), lambda: [xcase('cyclotomic')], None, 'Fq12', ('C17',),
    post=last_post, extra=MONO)
add('pairings::final_exp_last_chunk', fp, r'<impl>::final_exp_last_chunk$', None, ('Fq12',), lambda: [xcase('cyclotomic')], None, 'Fq12', ('C17',),
    post=last_post, extra=MONO)

def chunk_contracts():
    d = dict(MONO)
    def first(self, interp, func, st, c, args):
        x = unref(interp, st, args[0])
        if isinstance(x, Poly) and x.is_zero():
            return [(st, NONE)]
        e = (Q**6 - 1) * (Q**2 + 1)
        return [(st, Some(Poly({tuple((v, k * e) for v, k in m): cc for m, cc in x.t.items()})))]
    def last(self, interp, func, st, c, args):
        x = unref(interp, st, args[0])
        e = PHI12 // R_ORDER
        return [(st, Poly({tuple((v, k * e) for v, k in m): cc for m, cc in x.t.items()}))]
    d[r'::final_exponentiation_first_chunk$'] = first
    d[r'::final_exponentiation_last_chunk$'] = last
    d[r'::final_exp_last_chunk$'] = last
    return d
def fe_post(case, st, ret, interp):
    if case.name == 'zero':
        if ret[1] != 'None':
            raise Violation("final exponentiation of 0 must be None")
        return [('none_iff_zero', [])]
    if ret[1] != 'Some':
        raise Violation("final exponentiation returned None for a non-zero element")
    e = mono_exp(ret[2][0])
    if (e - FULL // R_ORDER) % FULL != 0:
        raise Violation("final exponent is not (q^12-1)/r modulo q^12-1")
    return [('exponent', [])]
def fe_oracle(A, a):
    import sm9spec
    if sm9spec.tw_is_zero(a):
        return None
    return tower.pow_num(A, 'Fq12', a, FULL // R_ORDER)
add('pairings::final_exponentiation', fp, r'<impl>::final_exponentiation$', None, ('Fq12',), fe_first_cases, fe_oracle, 'Fq12', ('C17',),
    post=fe_post, extra=chunk_contracts(), hook=('fq12::final_exponentiation', ['Fq12'], 'opt:Fq12'), search_max=5)
add('pairings::final_exp', fp, r'<impl>::final_exp$', None, ('Fq12',), fe_first_cases, fe_oracle, 'Fq12', ('C17',),
    post=fe_post, extra=chunk_contracts(), hook=('fq12::final_exp', ['Fq12'], 'opt:Fq12'), search_max=5)
