"""Parser for the textual MIR printed by `rustc -Zunpretty=mir`.

Only the subset that occurs in the loop-free algebraic layers of sm9_core is
given structure; everything else is kept as ('raw', text) and makes the
interpreter report `Unsupported` (=> undecided, never an alarm).
"""
import re

class ParseError(Exception):
    pass

class Func:
    def __init__(self, name, args, ret, header):
        self.name = name          # full path as printed
        self.args = args          # list of (local, type)
        self.ret = ret
        self.header = header
        self.locals = {}          # local index -> type string
        self.blocks = {}          # bb index -> (statements, terminator)
        self.key = None           # normalised key (file, short name, signature)
        self.text = ""

    def __repr__(self):
        return "<Func %s>" % (self.key,)

# ---------------------------------------------------------------------------
# balanced scanning helpers

OPEN = {'(': ')', '[': ']', '{': '}', '<': '>'}
CLOSE = {')', ']', '}', '>'}

def split_top(s, sep=','):
    """split s at top-level separators (balanced (), [], {}, <>), handling '->' and string literals"""
    out = []
    depth = 0
    cur = []
    i = 0
    n = len(s)
    while i < n:
        c = s[i]
        if c == '"':
            j = i + 1
            while j < n and s[j] != '"':
                if s[j] == '\\':
                    j += 1
                j += 1
            cur.append(s[i:j + 1])
            i = j + 1
            continue
        if c == '-' and i + 1 < n and s[i + 1] == '>':
            cur.append('->')
            i += 2
            continue
        if c in OPEN:
            depth += 1
        elif c in CLOSE:
            depth -= 1
        if c == sep and depth == 0:
            out.append(''.join(cur).strip())
            cur = []
        else:
            cur.append(c)
        i += 1
    last = ''.join(cur).strip()
    if last:
        out.append(last)
    return out

def match_close(s, i):
    """s[i] is an opening bracket; return index of its matching close"""
    depth = 0
    n = len(s)
    j = i
    while j < n:
        c = s[j]
        if c == '"':
            j += 1
            while j < n and s[j] != '"':
                if s[j] == '\\':
                    j += 1
                j += 1
        elif c == '-' and j + 1 < n and s[j + 1] == '>':
            j += 1
        elif c in OPEN:
            depth += 1
        elif c in CLOSE:
            depth -= 1
            if depth == 0:
                return j
        j += 1
    raise ParseError("unbalanced: " + s[i:i + 60])

# ---------------------------------------------------------------------------
# places and operands

def parse_place(s):
    """returns ('local', n) | ('deref', p) | ('field', p, idx, ty) | ('downcast', p, variant) | ('index', p, idxtext)"""
    s = s.strip()
    p, rest = _place(s, 0)
    if s[rest:].strip():
        raise ParseError("trailing in place: %r" % s)
    return p

def _place(s, i):
    n = len(s)
    while i < n and s[i] == ' ':
        i += 1
    if s[i] == '_':
        j = i + 1
        while j < n and s[j].isdigit():
            j += 1
        base = ('local', int(s[i + 1:j]))
        i = j
    elif s[i] == '(':
        j = match_close(s, i)
        inner = s[i + 1:j]
        base = _paren_place(inner)
        i = j + 1
    else:
        raise ParseError("place? %r" % s[i:i + 40])
    # postfix index
    while i < n and s[i] == '[':
        j = match_close(s, i)
        base = ('index', base, s[i + 1:j])
        i = j + 1
    return base, i

def _paren_place(inner):
    inner = inner.strip()
    if inner.startswith('*'):
        return ('deref', parse_place(inner[1:]))
    # (PLACE.N: TYPE)  or (PLACE as Variant)
    p, i = _place(inner, 0)
    rest = inner[i:]
    m = re.match(r'\.(\d+): (.*)$', rest, re.S)
    if m:
        return ('field', p, int(m.group(1)), m.group(2).strip())
    m = re.match(r' as (\w+)$', rest)
    if m:
        return ('downcast', p, m.group(1))
    raise ParseError("paren place? %r" % inner)

def parse_operand(s):
    s = s.strip()
    if s.startswith('no_retag '):
        s = s[len('no_retag '):]
    if s.startswith('copy '):
        return ('copy', parse_place(s[5:]))
    if s.startswith('move '):
        return ('move', parse_place(s[5:]))
    if s.startswith('const '):
        return ('const', s[6:].strip())
    if re.match(r'^[A-Za-z_<][\w:<>, &]*$', s) and not s.startswith('_'):
        return ('fnitem', s)       # a function item / tuple-struct constructor used as a value
    raise ParseError("operand? %r" % s)

BINOPS = {'Add', 'Sub', 'Mul', 'Div', 'Rem', 'BitAnd', 'BitOr', 'BitXor', 'Shl', 'Shr', 'Eq', 'Ne', 'Lt', 'Le', 'Gt', 'Ge',
          'AddWithOverflow', 'SubWithOverflow', 'MulWithOverflow', 'AddUnchecked', 'SubUnchecked', 'MulUnchecked',
          'ShlUnchecked', 'ShrUnchecked', 'Offset', 'Cmp'}
UNOPS = {'Not', 'Neg', 'PtrMetadata'}

def parse_rvalue(s):
    s = s.strip()
    if s.startswith('no_retag '):
        s = s[len('no_retag '):]
    if s.startswith(('copy ', 'move ', 'const ')):
        # possibly a cast:  copy _x as T (Kind)
        m = re.match(r'^((?:copy|move) \S+|const .+?) as (.+) \((\w+(?:\(.*\))?)\)$', s)
        if m and _balanced(m.group(1)):
            return ('cast', parse_operand(m.group(1)), m.group(2), m.group(3))
        try:
            return ('use', parse_operand(s))
        except ParseError:
            return ('raw', s)
    if s.startswith('&mut '):
        return ('mutref', parse_place(s[5:]))
    if s.startswith('&raw '):
        return ('raw', s)
    if s.startswith('&'):
        t = s[1:].strip()
        if t.startswith('fake '):
            return ('raw', s)
        return ('ref', parse_place(t))
    m = re.match(r'^(\w+)\((.*)\)$', s, re.S)
    if m and m.group(1) in BINOPS and len(split_top(m.group(2))) == 2:
        a = split_top(m.group(2))
        return ('binop', m.group(1), parse_operand(a[0]), parse_operand(a[1]))
    if m and m.group(1) in UNOPS:
        return ('unop', m.group(1), parse_operand(m.group(2)))
    if m and m.group(1) == 'discriminant':
        return ('discriminant', parse_place(m.group(2)))
    if m and m.group(1) == 'Len':
        return ('len', parse_place(m.group(2)))
    # tuple
    if s.startswith('(') and match_close(s, 0) == len(s) - 1:
        inner = s[1:-1]
        parts = split_top(inner)
        try:
            return ('tuple', [parse_operand(x) for x in parts])
        except ParseError:
            return ('raw', s)
    if s.startswith('[') and match_close(s, 0) == len(s) - 1:
        inner = s[1:-1]
        semi = split_top(inner, ';')
        if len(semi) == 2:
            return ('repeat', parse_operand(semi[0]), semi[1])
        return ('array', [parse_operand(x) for x in split_top(inner)])
    # aggregate  Path { f: op, .. }   |  Path(op, ..)  |  Path (unit variant)
    if s.endswith('}'):
        i = s.rfind('{')
        # find the brace that matches the last '}' (closure types contain braces as well)
        depth = 0
        for k in range(len(s) - 1, -1, -1):
            if s[k] == '}':
                depth += 1
            elif s[k] == '{':
                depth -= 1
                if depth == 0:
                    i = k
                    break
        path = s[:i].strip()
        inner = s[i + 1:-1].strip()
        fields = []
        for part in split_top(inner):
            m2 = re.match(r'^(\w+): (.*)$', part, re.S)
            if not m2:
                return ('raw', s)
            fields.append((m2.group(1), parse_operand(m2.group(2))))
        return ('struct', path, fields)
    if s.endswith(')'):
        # find matching '(' of the final ')'
        depth = 0
        i = None
        for k in range(len(s) - 1, -1, -1):
            if s[k] in CLOSE and not (s[k] == '>' and k > 0 and s[k - 1] == '-'):
                depth += 1
            elif s[k] in OPEN:
                depth -= 1
                if depth == 0:
                    i = k
                    break
        if i is not None and s[i] == '(' and i > 0:
            path = s[:i].strip()
            try:
                ops = [parse_operand(x) for x in split_top(s[i + 1:-1])]
                return ('ctor', path, ops)
            except ParseError:
                return ('raw', s)
    if re.match(r'^[\w:<>, &\[\];]+$', s):
        return ('unit', s)     # e.g. Option::<T>::None
    return ('raw', s)

def _balanced(s):
    d = 0
    for c in s:
        if c in '([{':
            d += 1
        elif c in ')]}':
            d -= 1
    return d == 0

# ---------------------------------------------------------------------------

HEADER = re.compile(r'^fn (.+?)\((.*)\) -> (.+) \{$')

def parse_mir(text):
    """returns dict name -> Func (name as printed; duplicates keep the first)"""
    funcs = {}
    lines = text.split('\n')
    i = 0
    n = len(lines)
    while i < n:
        line = lines[i]
        if line.startswith('fn '):
            # header may be long but is a single line
            m = HEADER.match(line)
            if not m:
                # fn without explicit return "fn foo(_1: T) {"? MIR always prints -> ; skip otherwise
                i += 1
                continue
            name, argstr, ret = m.group(1), m.group(2), m.group(3)
            args = []
            for a in split_top(argstr):
                ma = re.match(r'^_(\d+): (.*)$', a, re.S)
                if ma:
                    args.append((int(ma.group(1)), ma.group(2)))
            f = Func(name, args, ret, line)
            j = i + 1
            body = []
            while j < n and lines[j] != '}':
                body.append(lines[j])
                j += 1
            f.text = '\n'.join(lines[i:j + 1])
            _parse_body(f, body)
            if name not in funcs:
                funcs[name] = f
            i = j + 1
        else:
            i += 1
    return funcs

LET = re.compile(r'^\s*let (?:mut )?_(\d+): (.*);$')
BB = re.compile(r'^\s*bb(\d+)(?: \(cleanup\))?: \{$')

def _parse_body(f, body):
    cur = None
    stmts = []
    for a, t in f.args:
        f.locals[a] = t
    f.debug = {}
    for line in body:
        md = re.match(r'^\s*debug (\w+) => _(\d+);$', line)
        if md and md.group(1) not in f.debug:
            f.debug[md.group(1)] = int(md.group(2))
    k = 0
    while k < len(body):
        line = body[k]
        k += 1
        m = LET.match(line)
        if m and cur is None:
            f.locals[int(m.group(1))] = m.group(2)
            continue
        m = BB.match(line)
        if m:
            cur = int(m.group(1))
            stmts = []
            continue
        if cur is None:
            continue
        s = line.strip()
        if s == '}':
            if stmts:
                f.blocks[cur] = (stmts[:-1], stmts[-1])
            else:
                f.blocks[cur] = ([], ('raw', ''))
            cur = None
            continue
        if not s:
            continue
        # statements may span several lines only for long const arrays; join until ';'
        while not s.endswith(';') and k < len(body):
            s += ' ' + body[k].strip()
            k += 1
        s = s[:-1]
        # strip trailing comments
        try:
            stmts.append(_parse_stmt(s))
        except (ParseError, IndexError, AssertionError, ValueError):
            stmts.append(('raw', s))

def _parse_targets(s):
    """'[return: bb1, unwind continue]' -> dict"""
    d = {}
    s = s.strip()
    if s.startswith('['):
        for part in split_top(s[1:-1]):
            mm = re.match(r'^(\w+): bb(\d+)$', part)
            if mm:
                d[mm.group(1)] = int(mm.group(2))
            else:
                mm = re.match(r'^(-?\d+)(?:_\w+)?: bb(\d+)$', part)
                if mm:
                    d[int(mm.group(1))] = int(mm.group(2))
    return d

NOISE = ('StorageLive', 'StorageDead', 'FakeRead', 'PlaceMention', 'AscribeUserType', 'Retag', 'Coverage',
         'ConstEvalCounter', 'nop', 'Deinit', 'BackwardIncompatibleDropHint')

def _parse_stmt(s):
    if s.startswith(NOISE):
        return ('nop',)
    if s == 'return':
        return ('return',)
    if s in ('unreachable', 'resume', 'abort', 'terminate(abi)', 'terminate(cleanup)'):
        return ('diverge', s)
    m = re.match(r'^goto -> bb(\d+)$', s)
    if m:
        return ('goto', int(m.group(1)))
    if s.startswith('switchInt('):
        j = match_close(s, len('switchInt'))
        op = parse_operand(s[len('switchInt('):j])
        tg = s[j + 1:].strip()
        assert tg.startswith('->')
        tg = tg[2:].strip()
        targets = []
        other = None
        for part in split_top(tg[1:-1]):
            mm = re.match(r'^(-?\d+)(?:_\w+)?: bb(\d+)$', part)
            if mm:
                targets.append((int(mm.group(1)), int(mm.group(2))))
            else:
                mm = re.match(r'^otherwise: bb(\d+)$', part)
                if mm:
                    other = int(mm.group(1))
        return ('switch', op, targets, other)
    if s.startswith('assert('):
        j = match_close(s, len('assert'))
        inner = split_top(s[len('assert('):j])
        cond = inner[0]
        expected = True
        if cond.startswith('!'):
            expected = False
            cond = cond[1:]
        tg = s[j + 1:].strip()[2:].strip()
        d = _parse_targets(tg)
        return ('assert', parse_operand(cond), expected, d.get('success'), inner[1] if len(inner) > 1 else '')
    if s.startswith('drop('):
        j = match_close(s, len('drop'))
        tg = s[j + 1:].strip()[2:].strip()
        d = _parse_targets(tg)
        return ('goto', d.get('return'))
    # assignment or call
    eq = _find_assign(s)
    if eq is None:
        return ('raw', s)
    lhs = s[:eq].strip()
    rhs = s[eq + 3:].strip()
    # a call has  ... ) -> [return: bbN, ...]   or  -> unwind continue (diverging)
    mcall = _split_call(rhs)
    if mcall is not None:
        callee, args, targets, diverges = mcall
        try:
            ops = [parse_operand(a) for a in args]
        except ParseError:
            return ('raw', s)
        try:
            dest = parse_place(lhs)
        except ParseError:
            return ('raw', s)
        return ('call', dest, callee, ops, targets.get('return'), diverges)
    m = re.match(r'^discriminant\((.*)\)$', lhs)
    if m:
        return ('setdiscr', parse_place(m.group(1)), rhs)
    try:
        dest = parse_place(lhs)
    except ParseError:
        return ('raw', s)
    try:
        rv = parse_rvalue(rhs)
    except (ParseError, IndexError, ValueError):
        rv = ('raw', rhs)
    return ('assign', dest, rv)

def _find_assign(s):
    depth = 0
    for i, c in enumerate(s):
        if c in '([{':
            depth += 1
        elif c in ')]}':
            depth -= 1
        elif c == ' ' and depth == 0 and s[i:i + 3] == ' = ':
            return i
    return None

def _split_call(rhs):
    """callee(args) -> [targets]  |  callee(args) -> unwind continue"""
    idx = rhs.rfind(') -> ')
    if idx < 0:
        return None
    tail = rhs[idx + 5:].strip()
    if not (tail.startswith('[') or tail.startswith('unwind')):
        return None
    head = rhs[:idx + 1]
    # find the '(' matching the last ')'
    depth = 0
    start = None
    k = len(head) - 1
    while k >= 0:
        c = head[k]
        if c == '>' and k > 0 and head[k - 1] == '-':
            k -= 2
            continue
        if c in ')]}':
            depth += 1
        elif c in '([{':
            depth -= 1
            if depth == 0:
                start = k
                break
        k -= 1
    if start is None or head[start] != '(':
        return None
    callee = head[:start].strip()
    args = split_top(head[start + 1:-1])
    if tail.startswith('['):
        targets = _parse_targets(tail)
        return callee, args, targets, False
    return callee, args, {}, True

# ---------------------------------------------------------------------------
# normalised keys

IMPL_AT = re.compile(r'<impl at (src/[\w/]+\.rs):\d+:\d+: \d+:\d+>')

def norm_key(f):
    """(file, name-with-impl-anonymised, signature) -- stable under line shifts"""
    name = f.name
    files = IMPL_AT.findall(name)
    short = IMPL_AT.sub('<impl>', name)
    sig = '(' + ', '.join(IMPL_AT.sub('<impl>', re.sub(r'\{closure@[^}]*\}', '{closure}', t)) for _, t in f.args) + ') -> ' + \
        IMPL_AT.sub('<impl>', re.sub(r'\{closure@[^}]*\}', '{closure}', f.ret))
    return (files[0] if files else '', short, sig)


def successors(term):
    k = term[0]
    if k == 'goto':
        return [term[1]]
    if k == 'switch':
        out = [b for _, b in term[2]]
        if term[3] is not None:
            out.append(term[3])
        return out
    if k == 'assert':
        return [term[3]] if term[3] is not None else []
    if k == 'call':
        return [term[4]] if term[4] is not None else []
    return []

def loops(f):
    """natural loops of the CFG: dict head -> (set of blocks, set of locals assigned in them)"""
    succ = {b: successors(t) for b, (_, t) in f.blocks.items()}
    color = {}
    back = []
    stack = [(0, iter(succ.get(0, [])))]
    color[0] = 1
    while stack:
        b, it = stack[-1]
        nxt = None
        for s_ in it:
            if s_ not in f.blocks:
                continue
            if color.get(s_, 0) == 0:
                nxt = s_
                break
            if color.get(s_) == 1:
                back.append((b, s_))
        if nxt is None:
            color[b] = 2
            stack.pop()
        else:
            color[nxt] = 1
            stack.append((nxt, iter(succ.get(nxt, []))))
    pred = {}
    for b, ss in succ.items():
        for s_ in ss:
            pred.setdefault(s_, []).append(b)
    out = {}
    for t, h in back:
        nodes = out.setdefault(h, [set([h]), set()])[0]
        work = [t]
        while work:
            n = work.pop()
            if n in nodes:
                continue
            nodes.add(n)
            work.extend(pred.get(n, []))
    for h, (nodes, assigned) in out.items():
        for b in nodes:
            stmts, term = f.blocks[b]
            for s_ in stmts + [term]:
                if s_[0] in ('assign', 'call'):
                    pl = s_[1]
                    while pl[0] in ('field', 'downcast', 'index'):
                        pl = pl[1]
                    if pl[0] == 'local':
                        assigned.add(pl[1])
                    elif pl[0] == 'deref':
                        assigned.add(('deref',))
                # calls taking &mut locals modify them
                if s_[0] == 'assign' and s_[2][0] == 'mutref':
                    pl = s_[2][1]
                    while pl[0] in ('field', 'downcast', 'index'):
                        pl = pl[1]
                    if pl[0] == 'local':
                        assigned.add(pl[1])
    return {h: (nodes, assigned) for h, (nodes, assigned) in out.items()}
