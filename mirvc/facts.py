"""Path hypotheses for mirvc: substitutions, rewrite rules, non-zero facts and
inverse variables, all interpreted in an integral domain of characteristic Q
(every ring the verified code computes in is a field of characteristic q).

 * sub      x := poly          (from hypotheses  e = 0  that are linear in x)
 * rules    x^k -> poly        (given by a contract's precondition, e.g. the curve equation)
 * nonzero  polys known != 0
 * nus      (nu, N) with N*nu = 1   (results of `inverse`, and 1/c for non-zero c)

`is_zero` decides  "p = 0 follows from the hypotheses"  by normalising p and
eliminating the nu's (p(nu = 1/N) * N^deg = 0  <=>  p = 0 when N != 0).  It is
sound (never says zero for something that is not forced to be zero); when it is
incomplete the caller forks or reports `undecided`.
"""
from poly import Poly, V, C

Q = 0xB640000002A3A6F1D603AB4FF58EC74521F2934B1A7AEEDBE56F9B27E351457D

class Infeasible(Exception):
    pass

_factor_cache = {}

def factor(p):
    """irreducible factorisation over Z found by sympy (untrusted) and checked by re-multiplication.
    returns (const, [(Poly, mult)])"""
    key = p
    if key in _factor_cache:
        return _factor_cache[key]
    import sympy
    vs = sorted(p.vars())
    if not vs:
        res = (p.const_value(), [])
        _factor_cache[key] = res
        return res
    syms = {v: sympy.Symbol(v) for v in vs}
    expr = 0
    for m, c in p.t.items():
        t = sympy.Integer(c)
        for v, e in m:
            t = t * syms[v] ** e
        expr += t
    c, facs = sympy.factor_list(expr, *[syms[v] for v in vs])
    out = []
    prod = Poly.const(int(c))
    for f, mult in facs:
        fp = _from_sympy(f, syms)
        out.append((fp, int(mult)))
        prod = prod * (fp ** int(mult))
    if prod != p:
        # sympy's answer does not multiply back: ignore it (sound: fall back to no factorisation)
        res = (1, [(p, 1)])
    else:
        res = (int(c), out)
    _factor_cache[key] = res
    return res

def _from_sympy(expr, syms):
    import sympy
    inv = {s: v for v, s in syms.items()}
    pol = sympy.Poly(expr, *list(syms.values()))
    gens = pol.gens
    r = {}
    for mon, coef in pol.terms():
        m = tuple(sorted((inv[g], int(e)) for g, e in zip(gens, mon) if e))
        r[m] = int(coef)
    return Poly(r)


class Facts:
    def __init__(self, char=Q):
        self.sub = {}
        self.rules = []      # (var, k, rhs)
        self.nonzero = []
        self.nus = []        # (name, N)
        self.char = char
        self.fresh = 0
        self.log = []

    def copy(self):
        f = Facts(self.char)
        f.sub = dict(self.sub)
        f.rules = list(self.rules)
        f.nonzero = list(self.nonzero)
        f.nus = list(self.nus)
        f.fresh = self.fresh
        f.log = list(self.log)
        return f

    # ------------------------------------------------------------ normal form
    def norm(self, p):
        if not isinstance(p, Poly):
            return p
        for _ in range(50):
            p2 = p.subst(self.sub) if self.sub else p
            p2 = self._apply_rules(p2)
            if p2 == p:
                break
            p = p2
        if self.char:
            p = p.mod(self.char)
            # canonical symmetric residues keep printed forms small
            p = Poly({m: (c if c <= self.char // 2 else c - self.char) for m, c in p.t.items()})
        return p

    def _apply_rules(self, p):
        for var, k, rhs in self.rules:
            if p.degree_in(var) >= k:
                cs = p.coeffs_in(var)
                acc = Poly()
                for e, coef in cs.items():
                    hi, lo = divmod(e, k)
                    term = coef * (rhs ** hi)
                    if lo:
                        term = term * (V(var) ** lo)
                    acc = acc + term
                p = acc
        return p

    def elim(self, p):
        """normal form with every nu eliminated (valid for deciding p = 0 only)"""
        p = self.norm(p)
        for name, N in reversed(self.nus):
            d = p.degree_in(name)
            if d == 0:
                continue
            cs = p.coeffs_in(name)
            Nn = self.norm(N)
            acc = Poly()
            pw = {0: Poly.const(1)}
            for i in range(1, d + 1):
                pw[i] = pw[i - 1] * Nn
            for e, coef in cs.items():
                acc = acc + coef * pw[d - e]
            p = self.norm(acc)
        return p

    # ------------------------------------------------------------ queries
    def is_zero(self, p):
        e = self.elim(p)
        if e.is_zero():
            return True
        # integral domain: p * n = 0 with n != 0 forces p = 0
        if self.nonzero and e.nterms() <= 64:
            for nz in self.nonzero:
                if nz.nterms() <= 64 and self.elim(e * nz).is_zero():
                    return True
        return False

    def is_nonzero(self, p):
        p = self.norm(p)
        if p.is_zero():
            return False
        if p.is_const():
            return True          # non-zero modulo char after norm
        return self._factors_nonzero(p)

    def _known_unit(self, f):
        """f (normalised, non-constant) is a known non-zero element"""
        for nz in self.nonzero:
            if f == nz or f == -nz:
                return True
        for name, _ in self.nus:
            if f == V(name) or f == -V(name):
                return True
        return False

    def _factors_nonzero(self, p):
        if self._known_unit(p):
            return True
        if p.nterms() == 1:
            # a monomial c * x1^e1 * ...: non-zero iff c != 0 (mod char) and every variable is a known non-zero element
            (m, c), = p.t.items()
            if self.char and c % self.char == 0:
                return False
            return all(self._known_unit(V(v)) for v, _ in m)
        if any(e > 4096 for m in p.t for _, e in m):
            return False          # no factorisation attempt on astronomically large exponents
        c, facs = factor(p)
        if c % self.char == 0 if self.char else c == 0:
            return False
        if len(facs) == 1 and facs[0][1] == 1 and facs[0][0] in (p, -p):
            return False
        for f, _ in facs:
            fn = self.norm(f)
            if fn.is_zero():
                return False
            if fn.is_const():
                continue
            if not self._known_unit(fn):
                # try deeper (a factor may factor further after normalisation)
                if fn != f and self._factors_nonzero(fn):
                    continue
                return False
        return True

    # ------------------------------------------------------------ updates
    def add_rule(self, var, k, rhs):
        self.rules.append((var, k, rhs))

    def assume_nonzero(self, p):
        p = self.norm(p)
        if self.is_zero(p):
            raise Infeasible("non-zero hypothesis on a zero value")
        if p.is_const():
            return
        if any(e > 4096 for m in p.t for _, e in m):
            if not self._known_unit(p):
                self.nonzero.append(p)
            self.log.append(('nonzero', p))
            return
        c, facs = factor(p)
        for f, _ in facs:
            fn = self.norm(f)
            if fn.is_const():
                continue
            if not self._known_unit(fn):
                self.nonzero.append(fn)
        self.log.append(('nonzero', p))

    def new_nu(self, N):
        """variable for 1/N; the caller has established N != 0"""
        Nn = self.norm(N)
        for name, M in self.nus:
            if self.norm(M) == Nn:
                return V(name)
        self.fresh += 1
        name = 'nu%d' % self.fresh
        self.nus.append((name, Nn))
        return V(name)

    def assume_zero(self, p):
        """returns a list of alternative Facts (disjunction) after assuming p = 0; raises Infeasible if impossible"""
        done = []
        work = [(self, [p])]
        first = True
        while work:
            f, pend = work.pop()
            if not pend:
                done.append(f)
                continue
            g0 = pend[0]
            rest = pend[1:]
            try:
                alts = f._assume_zero_one(g0)
            except Infeasible:
                continue
            for f2, more in alts:
                work.append((f2, rest + more))
        if not done:
            raise Infeasible("all alternatives infeasible")
        return done

    def _assume_zero_one(self, p):
        """one hypothesis p = 0: list of (Facts, [derived equations still to be assumed])"""
        p = self.norm(p)
        if p.is_zero() or self.is_zero(p):
            return [(self, [])]
        if self.is_nonzero(p):
            raise Infeasible("zero hypothesis on a non-zero value")
        pe = p
        if any(p.degree_in(n) for n, _ in self.nus):
            pe = self.elim(p)        # p = 0 <=> elim(p) = 0 (the N's are non-zero)
            if pe.is_zero():
                return [(self, [])]
        if any(e > 4096 for m in pe.t for _, e in m):
            c, facs = 1, [(pe, 1)]
        else:
            c, facs = factor(pe)
        cands = []
        for f, _ in facs:
            fn = self.norm(f)
            if fn.is_const():
                continue
            if self._known_unit(fn) or self.is_nonzero(fn):
                continue
            cands.append(fn)
        if not cands:
            raise Infeasible("zero hypothesis on a product of non-zero factors")
        outs = []
        for g in cands:
            f2 = self.copy() if len(cands) > 1 else self
            try:
                derived = f2._orient(g)
                outs.append((f2, derived))
            except Infeasible:
                pass
        if not outs:
            raise Infeasible("all alternatives infeasible")
        return outs

    def _orient(self, g):
        """turn the hypothesis g = 0 into a substitution (g linear in a variable with a unit coefficient) or a
        rewrite rule (g monic in a variable); returns derived equations (from rules whose head was substituted)"""
        best = None
        for v in sorted(g.vars()):
            if v.startswith('nu'):
                continue
            if g.degree_in(v) != 1:
                continue
            cs = g.coeffs_in(v)
            coef = cs[1]
            rest = cs.get(0, Poly())
            if coef.is_const():
                cv = coef.const_value()
                if cv in (1, -1):
                    score = 0
                else:
                    score = 1
            elif self.is_nonzero(coef):
                score = 2 + coef.nterms()
            else:
                continue
            # prefer variables that are not rule heads
            if any(v == rv for rv, _, _ in self.rules):
                score += 100
            if best is None or score < best[0]:
                best = (score, v, coef, rest)
        if best is None:
            # monic in some variable: keep it as a rewrite rule  v^d -> -(lower part)/lc
            for v in sorted(g.vars()):
                if v.startswith('nu'):
                    continue
                d = g.degree_in(v)
                cs = g.coeffs_in(v)
                lc = cs[d]
                if d >= 2 and lc.is_const():
                    inv = pow(lc.const_value() % self.char, -1, self.char)
                    lower = Poly()
                    for e, cf in cs.items():
                        if e != d:
                            lower = lower + cf * (V(v) ** e)
                    self.rules.append((v, d, self.norm(lower * (-inv))))
                    self._renormalise()
                    self.log.append(('rule', v, d))
                    return []
            from interp import Unsupported
            raise Unsupported("cannot orient hypothesis %r = 0" % (g,))
        _, v, coef, rest = best
        if coef.is_const() and coef.const_value() in (1, -1):
            rhs = rest * (-coef.const_value())
        elif coef.is_const():
            inv = pow(coef.const_value() % self.char, -1, self.char)
            rhs = rest * (-inv)
        else:
            nu = self.new_nu(coef)
            rhs = -(rest * nu)
        rhs = self.norm(rhs)
        derived = []
        # a rule whose head variable is substituted becomes an equation to be assumed in turn
        keep = []
        for rv, k, r in self.rules:
            if rv == v:
                derived.append(rhs ** k - r)
            else:
                keep.append((rv, k, r))
        self.rules = keep
        # compose into the substitution map
        self.sub = {k: val.subst({v: rhs}) for k, val in self.sub.items()}
        self.sub[v] = rhs
        self.rules = [(rv, k, r.subst({v: rhs})) for rv, k, r in self.rules]
        self._renormalise()
        self.log.append(('subst', v, rhs))
        return derived

    def _renormalise(self):
        # rewrite rules must be mutually consistent: reducing the head of one rule with the others must give its right-hand side
        for i, (v, k, rhs) in enumerate(self.rules):
            others = [r for j, r in enumerate(self.rules) if j != i]
            if not others:
                continue
            saved = self.rules
            self.rules = others
            try:
                d = self.norm(V(v) ** k - rhs)
            finally:
                self.rules = saved
            if d.is_const() and not d.is_zero():
                raise Infeasible("rewrite rules contradict each other")
        self.nus = [(n, self.norm(N)) for n, N in self.nus]
        newnz = []
        for nz in self.nonzero:
            z = self.norm(nz)
            if self.is_zero(z):
                raise Infeasible("hypothesis contradicts a non-zero fact")
            if not z.is_const():
                newnz.append(z)
        self.nonzero = newnz
        for n, N in self.nus:
            if self.is_zero(N):
                raise Infeasible("hypothesis makes an inverted value zero")
