import sys, json, time
sys.path.insert(0, __import__('os').path.dirname(__import__('os').path.abspath(__file__)))
sys.setrecursionlimit(10000)
import mirparse, vc

def load(mirfile):
    fs = mirparse.parse_mir(open(mirfile).read())
    out = {}
    for n, f in fs.items():
        if 'tests::' in n or 'integration_test' in n:
            continue
        f.key = mirparse.norm_key(f)
        out[n] = f
    return out

if __name__ == '__main__':
    import importlib
    funcs = load(sys.argv[1])
    mods = sys.argv[2].split(',')
    only = sys.argv[3] if len(sys.argv) > 3 else None
    tot = {'discharged': 0, 'refuted': 0, 'undecided': 0}
    for m in mods:
        mod = importlib.import_module(m)
        for spec in (mod.build(funcs) if hasattr(mod, 'build') else mod.SPECS):
            if only and only not in spec.fid:
                continue
            t = time.time()
            r = vc.verify_function(funcs, spec)
            for o in r.obligations:
                tot[o['status']] += 1
                if o['status'] != 'discharged' or only:
                    print('  ', o['status'], o['id'], o['detail'][:300])
            print('%-28s %-11s paths=%d obl=%d %.2fs' % (spec.fid, r.status, r.paths, len(r.obligations), time.time() - t))
    print(tot)
