"""Constants parsed from the current source text of /repo (the MIR of lazy_static initialisers carries
the same literals but not the static's name).  Used (a) as values of `*SM9_X` in mirvc, (b) by the ground
obligations that check each constant against its mathematical definition."""
import re, os

def _int(s):
    s = s.strip().replace('_', '')
    return int(s, 16) if s.lower().startswith('0x') else int(s)

def parse_consts(repo='/repo'):
    out = {}
    for rel in ('src/fields.rs', 'src/fields/fq4.rs', 'src/pairings.rs', 'src/groups.rs', 'src/fields/fq12.rs', 'src/fields/fq2.rs', 'src/fields/fp.rs'):
        p = os.path.join(repo, rel)
        if not os.path.exists(p):
            continue
        t = open(p, encoding='utf-8', errors='replace').read()
        t = re.sub(r'//[^\n]*', '', t)
        for m in re.finditer(r'static\s+ref\s+(\w+)\s*:\s*U256\s*=\s*U256::from\(\s*\[([^\]]*)\]\s*\)\s*;', t):
            limbs = [_int(x) for x in m.group(2).split(',') if x.strip()]
            if len(limbs) == 4:
                out[m.group(1)] = sum(l << (64 * i) for i, l in enumerate(limbs))
        for m in re.finditer(r'static\s+ref\s+(\w+)\s*:\s*u64\s*=\s*(0x[0-9a-fA-F_]+|\d+)\s*;', t):
            out[m.group(1)] = _int(m.group(2))
        for m in re.finditer(r'const\s+(\w+)\s*:\s*u128\s*=\s*(0x[0-9a-fA-F_]+|\d+)\s*;', t):
            out[m.group(1)] = _int(m.group(2))
        for m in re.finditer(r'const\s+(\w+)\s*:\s*\[u8;\s*(\d+)\]\s*=\s*\[([^\]]*)\]\s*;', t):
            out[m.group(1)] = [_int(x) for x in m.group(3).split(',') if x.strip()]
        for m in re.finditer(r'const\s+(\w+)\s*:\s*\[u8;\s*32\]\s*=\s*hex!\(\s*"([^"]*)"\s*\)\s*;', t):
            out[m.group(1)] = int(m.group(2).replace(' ', ''), 16)
    return out

if __name__ == '__main__':
    for k, v in parse_consts().items():
        print(k, hex(v) if isinstance(v, int) else v)
