"""The specification side: F_q[u]/(u^2+2), F_{q^2}[v]/(v^2-u), F_{q^4}[w]/(w^3-v)
written as ordinary schoolbook arithmetic on nested coefficient tuples.

The same code is used
  * symbolically (leaves are `Poly`)   -- postconditions of mirvc
  * numerically  (leaves are ints mod q) -- ground checks of constants, replay oracle.

A value of type T is either a leaf (when T is atomic at the current level) or
('struct', T, [components]).  Struct layouts follow the property statement:
  Fq2  = c0 + c1 u          u^2 = -2
  Fq4  = c0 + c1 v          v^2 = u
  Fq12 = c0 + c1 w + c2 w^2 w^3 = v
Nothing here is derived from the Rust code.
"""
from poly import Poly, V, C

TOWER = ['Fq', 'Fq2', 'Fq4', 'Fq12']
BELOW = {'Fq2': 'Fq', 'Fq4': 'Fq2', 'Fq12': 'Fq4'}
ARITY = {'Fq2': 2, 'Fq4': 2, 'Fq12': 3}
# symbol used for the non-residue when the type below is atomic
NR_SYMBOL = {'Fq2': None, 'Fq4': 'u_', 'Fq12': 'v_'}

def is_struct(v):
    return isinstance(v, tuple) and len(v) == 3 and v[0] == 'struct'

def mk(ty, comps):
    return ('struct', ty, list(comps))

class Algebra:
    """ring operations on tower values; `leaf` supplies the base ring"""

    def __init__(self, leaf):
        self.L = leaf

    # -- helpers
    def comps(self, ty, x):
        if not is_struct(x):
            raise LevelError("value of type %s is atomic at this level" % ty)
        return x[2]

    def zero(self, ty, like=None):
        if ty == 'Fq' or (like is not None and not is_struct(like)):
            return self.L.zero()
        return mk(ty, [self.zero(BELOW[ty], None if like is None else like[2][i]) for i in range(ARITY[ty])])

    def one(self, ty, like=None):
        if ty == 'Fq' or (like is not None and not is_struct(like)):
            return self.L.one()
        cs = [self.zero(BELOW[ty], None if like is None else like[2][i]) for i in range(ARITY[ty])]
        cs[0] = self.one(BELOW[ty], None if like is None else like[2][0])
        return mk(ty, cs)

    def add(self, ty, a, b):
        if not is_struct(a) and not is_struct(b):
            return self.L.add(a, b)
        return mk(ty, [self.add(BELOW[ty], x, y) for x, y in zip(self.comps(ty, a), self.comps(ty, b))])

    def neg(self, ty, a):
        if not is_struct(a):
            return self.L.neg(a)
        return mk(ty, [self.neg(BELOW[ty], x) for x in a[2]])

    def sub(self, ty, a, b):
        return self.add(ty, a, self.neg(ty, b))

    def dbl(self, ty, a):
        return self.add(ty, a, a)

    def scalar(self, ty, a, k):
        """multiplication by the integer k"""
        if not is_struct(a):
            return self.L.scalar(a, k)
        return mk(ty, [self.scalar(BELOW[ty], x, k) for x in a[2]])

    def nonresidue_times(self, ty, a):
        """a * (the element whose square/cube defines the extension ABOVE ty):
           ty = Fq2: a*u ; ty = Fq4: a*v ; (ty = Fq: a * (-2))"""
        if ty == 'Fq':
            return self.scalar('Fq', a, -2)
        if not is_struct(a):
            sym = {'Fq2': 'u_', 'Fq4': 'v_', 'Fq12': 'w_'}[ty]
            return self.L.mul(a, self.L.symbol(sym))
        cs = a[2]
        below = BELOW[ty]
        if ARITY[ty] == 2:
            # (c0 + c1 t) * t = c1 * t^2 + c0 t ,  t^2 = nonresidue of the level below
            return mk(ty, [self.nonresidue_times(below, cs[1]), cs[0]])
        # cubic: (c0 + c1 w + c2 w^2) * w = c2 w^3 + c0 w + c1 w^2
        return mk(ty, [self.nonresidue_times(below, cs[2]), cs[0], cs[1]])

    def mul(self, ty, a, b):
        if not is_struct(a) and not is_struct(b):
            return self.L.mul(a, b)
        if is_struct(a) and not is_struct(b):
            return mk(ty, [self.mul(BELOW[ty], x, b) for x in a[2]])
        if is_struct(b) and not is_struct(a):
            return mk(ty, [self.mul(BELOW[ty], a, y) for y in b[2]])
        below = BELOW[ty]
        x, y = a[2], b[2]
        M = lambda p, q: self.mul(below, p, q)
        A = lambda p, q: self.add(below, p, q)
        NR = lambda p: self.nonresidue_times(below, p)
        if ARITY[ty] == 2:
            return mk(ty, [A(M(x[0], y[0]), NR(M(x[1], y[1]))),
                           A(M(x[0], y[1]), M(x[1], y[0]))])
        return mk(ty, [A(M(x[0], y[0]), NR(A(M(x[1], y[2]), M(x[2], y[1])))),
                       A(A(M(x[0], y[1]), M(x[1], y[0])), NR(M(x[2], y[2]))),
                       A(A(M(x[0], y[2]), M(x[1], y[1])), M(x[2], y[0]))])

    def conj(self, ty, a):
        """the non-trivial automorphism of the quadratic extension ty over BELOW[ty]"""
        cs = self.comps(ty, a)
        assert ARITY[ty] == 2
        return mk(ty, [cs[0], self.neg(BELOW[ty], cs[1])])

    def embed(self, ty, x, like):
        """embed a leaf x of the base ring into type ty (shape taken from `like`)"""
        if not is_struct(like):
            return x
        cs = [self.zero(BELOW[ty], c) for c in like[2]]
        cs[0] = self.embed(BELOW[ty], x, like[2][0])
        return mk(ty, cs)

    def eq_components(self, ty, a, b):
        """list of leaf differences a - b"""
        if not is_struct(a) and not is_struct(b):
            return [self.L.sub(a, b)]
        out = []
        for x, y in zip(self.comps(ty, a), self.comps(ty, b)):
            out += self.eq_components(BELOW[ty], x, y)
        return out

    def leaves(self, a):
        if not is_struct(a):
            return [a]
        out = []
        for x in a[2]:
            out += self.leaves(x)
        return out


class LevelError(Exception):
    pass


class PolyLeaf:
    def zero(self): return Poly()
    def one(self): return Poly.const(1)
    def add(self, a, b): return a + b
    def sub(self, a, b): return a - b
    def neg(self, a): return -a
    def mul(self, a, b): return a * b
    def scalar(self, a, k): return a * k
    def symbol(self, s): return V(s)


class ModLeaf:
    def __init__(self, p): self.p = p
    def zero(self): return 0
    def one(self): return 1
    def add(self, a, b): return (a + b) % self.p
    def sub(self, a, b): return (a - b) % self.p
    def neg(self, a): return (-a) % self.p
    def mul(self, a, b): return a * b % self.p
    def scalar(self, a, k): return a * k % self.p
    def symbol(self, s): raise LevelError("no symbols in numeric mode")


SYM = Algebra(PolyLeaf())

def fresh(ty, name, atoms):
    """a fully symbolic value of type ty whose leaves are the types in `atoms`"""
    if ty in atoms or ty == 'Fq':
        return V(name)
    return mk(ty, [fresh(BELOW[ty], '%s_%d' % (name, i), atoms) for i in range(ARITY[ty])])

def pow_num(alg, ty, a, e):
    r = alg.one(ty, a)
    b = a
    while e:
        if e & 1:
            r = alg.mul(ty, r, b)
        b = alg.mul(ty, b, b)
        e >>= 1
    return r
