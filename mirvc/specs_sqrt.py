"""Square roots (C14).
Fq::sqrt  (q = 5 mod 8, SM9 Part 1 Annex C.1.4.1): verified in the exponent domain x = X, with the three spec cases of
Euler's criterion (A2): x = 0;  x a non-zero square (X^((q-1)/2) = 1);  x a non-square (X^((q-1)/2) = -1):
   sqrt(0) = Some(0);   square  => Some(s) with s*s = x on every feasible path (soundness + completeness);   non-square => None.
Fq2::sqrt: soundness -- every Some(s) returned satisfies s*s = x (final check / the b = 0 branch with the Fq contract); sqrt(0) = 0.
Fq2::sqrt completeness: for x = (p + r u)^2 with (p, r) != (0, 0) every feasible path returns Some (and by soundness a root).
The Fq::sqrt calls are replaced by the FULL contract established above (sound, complete, sqrt(0) = Some(0)): for an argument that
factors as c * g^2 the quadratic character is that of the constant c (ground Legendre symbol; chi(c g^2) = chi(c) for g != 0 is A2):
   chi(c) = +1: Some(+-k g) with k^2 = c;    chi(c) = -1: Some(0) if g = 0, None if g != 0;    otherwise both outcomes.
Every element of Fq2 that is a square has this form, and every a in Fq is a square in Fq2 (a = p^2 or a = -2 r^2 since -2 is a
non-residue: ground fact), so "real" inputs are the sub-cases r = 0 / p = 0."""
import re
from vc import FnSpec, Case, ref
from poly import Poly, V, C
from interp import S, Some, NONE, B, is_struct, Violation, Unsupported
from contracts import unref
from facts import Q, Infeasible
import tower
from tower import SYM, mk, fresh

SPECS = []
K4 = (Q - 1) // 4
K8 = (Q - 5) // 8
X = V('X')

def h_const(val):
    def h(cx, interp, func, st, c, args):
        return [(st, ('ref', ('intconst', val)))]
    return h

def h_pow(cx, interp, func, st, c, args):
    """contract of FieldElement::pow (obligation fields::FieldElement::pow): x^e for the canonical integer e of the exponent"""
    x = unref(interp, st, args[0]); e = unref(interp, st, args[1])
    if not (isinstance(e, tuple) and e[0] == 'intconst'):
        raise Unsupported("pow with a non-constant exponent")
    x = st.facts.norm(x)
    if not isinstance(x, Poly) or x.nterms() != 1:
        raise Unsupported("pow of a non-monomial in the exponent domain")
    (m, cf), = x.t.items()
    q = st.facts.char
    return [(st, Poly({tuple((v, k * e[1]) for v, k in m): pow(cf % q, e[1], q)}))]

def h_uf_val(cx, interp, func, st, c, args):
    return [(st, ('uf', c, tuple(args)))]

def h_uf_bool(cx, interp, func, st, c, args):
    return [(st.fork(), B(True)), (st.fork(), B(False))]

EXQ = {
    r'^<FQ_MINUS1_DIV4 as Deref>::deref$': h_const(K4),
    r'^<FQ_MINUS5_DIV8 as Deref>::deref$': h_const(K8),
    r'^<Fq as FieldElement>::pow::<Fq>$': h_pow,
    r'^<U256 as From<Fq>>::from$': h_uf_val,
    r'^<U256 as PartialOrd>::lt$': h_uf_bool,
}

def fq_cases():
    def sq(facts):
        facts.assume_nonzero(X)
        facts.add_rule('X', (Q - 1) // 2, C(1))
    def nsq(facts):
        facts.assume_nonzero(X)
        facts.add_rule('X', (Q - 1) // 2, C(-1))
    return [Case('zero', [ref(Poly())]), Case('square', [ref(X)], sq), Case('non_square', [ref(X)], nsq)]

def fq_post(case, st, ret, interp):
    if case.name == 'zero':
        if ret[1] != 'Some' or not st.facts.is_zero(ret[2][0]):
            raise Violation("sqrt(0) must be Some(0)")
        return [('sqrt_of_zero', [])]
    if case.name == 'non_square':
        if ret[1] != 'None':
            raise Violation("sqrt of a non-square returned Some")
        return [('none_for_non_squares', [])]
    if ret[1] != 'Some':
        raise Violation("sqrt of a non-zero square returned None (path %s)" % ' '.join(st.trace[-6:]))
    s = ret[2][0]
    return [('root_squares_to_x', [s * s - X])]
SPECS.append(FnSpec('fp::Fq::sqrt', 'src/fields/fp.rs', r'<impl>::sqrt$', r'^\(&Fq\) -> Option<Fq>$', ('Fq',), fq_cases, fq_post, extra=EXQ, prop=('C14',)))

# ---------------------------------------------------------------- Fq2::sqrt (soundness)
def h_fq_sqrt(cx, interp, func, st, c, args):
    """contract of Fq::sqrt (obligations above): None, or Some(s) with s*s = x"""
    x = unref(interp, st, args[0])
    out = []
    s1 = st.fork()
    out.append((s1, NONE))
    s2 = st.fork()
    s2.facts.fresh += 1
    nm = 'rt%d' % s2.facts.fresh
    s2.facts.add_rule(nm, 2, s2.facts.norm(x))
    out.append((s2, Some(V(nm))))
    return out

EX2 = {r'^Fq::sqrt$': h_fq_sqrt}

def fq2_cases():
    x = fresh('Fq2', 'a', ('Fq',))
    return [Case('zero', [ref(SYM.zero('Fq2', x))]), Case('any', [ref(x)], None, {'x': x})]
def fq2_post(case, st, ret, interp):
    if case.name == 'zero':
        if ret[1] != 'Some' or not all(st.facts.is_zero(p) for p in SYM.leaves(ret[2][0])):
            raise Violation("sqrt(0) must be Some(0)")
        return [('sqrt_of_zero', [])]
    if ret[1] == 'None':
        return [('none_path', [])]
    x = case.aux['x']
    s = ret[2][0]
    return [('returned_root_squares_to_x', SYM.eq_components('Fq2', SYM.mul('Fq2', s, s), x))]
SPECS.append(FnSpec('fq2::sqrt', 'src/fields/fq2.rs', r'<impl>::sqrt$', r'^\(&Fq2\) -> Option<Fq2>$', ('Fq',), fq2_cases, fq2_post, extra=EX2, prop=('C14',), max_paths=2000))


# ---------------------------------------------------------------- Fq2::sqrt (completeness on squares)
def _legendre(c):
    c %= Q
    return 0 if c == 0 else (1 if pow(c, (Q - 1) // 2, Q) == 1 else -1)

def _sqrt_mod(c):
    # q = 5 mod 8 (Atkin); only used to build the two roots +-k g of c g^2, re-checked by squaring
    c %= Q
    t = pow(2 * c, (Q - 5) // 8, Q)
    i = 2 * c * t * t % Q
    k = c * t * (i - 1) % Q
    assert k * k % Q == c
    return k

def h_fq_sqrt_full(cx, interp, func, st, c, args):
    """full contract of Fq::sqrt (obligations fp::Fq::sqrt/{zero,square,non_square}): decided from the factorisation c * g^2"""
    from facts import factor
    x = st.facts.norm(unref(interp, st, args[0]))
    if st.facts.is_zero(x):
        return [(st, Some(Poly()))]
    cst, facs = factor(x)
    import os
    if os.environ.get('SQRT_DEBUG'):
        print('   sqrt arg', x, '=', cst, facs, 'chi', _legendre(cst), '| trace', ' '.join(st.trace[-6:]))
    odd = [f for f, e in facs if e % 2 == 1 and not st.facts.norm(f).is_const()]
    out = []
    if not odd:
        g = Poly.const(1)
        for f, e in facs:
            g = g * (f ** (e // 2))
        chi = _legendre(cst)
        if chi == 1:
            k = _sqrt_mod(cst)
            # x = (k g)^2: the root is k g or -k g (integral domain); g = 0 gives 0 in both
            for sgn in (1, -1):
                s2 = st.fork()
                s2.trace.append('sqrt=%sk*g' % ('+' if sgn > 0 else '-'))
                out.append((s2, Some(st.facts.norm(C(sgn * k) * g))))
            return out
        if chi == -1:
            # non-residue times a square: a square only if g = 0
            try:
                s0 = st.fork()
                alts = s0.facts.assume_zero(g)
                for n, fa in enumerate(alts):
                    s2 = s0 if n == 0 else s0.fork()
                    s2.facts = fa
                    s2.trace.append('sqrt(0)')
                    out.append((s2, Some(Poly())))
            except Infeasible:
                pass
            try:
                s3 = st.fork()
                s3.facts.assume_nonzero(g)
                s3.trace.append('sqrt=None(non-residue)')
                out.append((s3, NONE))
            except Infeasible:
                pass
            return out
    # character unknown: both outcomes
    return h_fq_sqrt(cx, interp, func, st, c, args)

EX2C = {r'^Fq::sqrt$': h_fq_sqrt_full}

def fq2c_cases():
    p, r = V('p'), V('r')
    def nz_p(facts):
        facts.assume_nonzero(p)
        # 2 and -2 are quadratic non-residues mod q (ground facts sqrt/two_is_non_residue, tower/minus_two_is_non_residue),
        # so p^2 = 2 r^2 or p^2 = -2 r^2 would force p = r = 0
        assert _legendre(2) == -1 and _legendre(-2) == -1
        facts.assume_nonzero(p * p - 2 * r * r)
        facts.assume_nonzero(p * p + 2 * r * r)
    def nz_r(facts):
        facts.assume_nonzero(r)
    # x = (p + r u)^2 = (p^2 - 2 r^2) + (2 p r) u ;  p != 0, or p = 0 and r != 0
    return [Case('square_p_nonzero', [ref(mk('Fq2', [p * p - 2 * r * r, 2 * p * r]))], nz_p),
            Case('square_p_zero', [ref(mk('Fq2', [C(-2) * r * r, Poly()]))], nz_r)]
def fq2c_post(case, st, ret, interp):
    if ret[1] != 'Some':
        raise Violation("sqrt of a square of Fq2 returned None (path %s)" % ' '.join(st.trace[-8:]))
    return [('some_for_squares', [])]
SPECS.append(FnSpec('fq2::sqrt_complete', 'src/fields/fq2.rs', r'<impl>::sqrt$', r'^\(&Fq2\) -> Option<Fq2>$', ('Fq',), fq2c_cases, fq2c_post, extra=EX2C, prop=('C14',), max_paths=4000))
