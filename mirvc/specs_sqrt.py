"""Square roots (C14).
Fq::sqrt  (q = 5 mod 8, SM9 Part 1 Annex C.1.4.1): verified in the exponent domain x = X, with the three spec cases of
Euler's criterion (A2): x = 0;  x a non-zero square (X^((q-1)/2) = 1);  x a non-square (X^((q-1)/2) = -1):
   sqrt(0) = Some(0);   square  => Some(s) with s*s = x on every feasible path (soundness + completeness);   non-square => None.
Fq2::sqrt: soundness -- every Some(s) returned satisfies s*s = x (final check / the b = 0 branch with the Fq contract); sqrt(0) = 0.
Completeness of Fq2::sqrt is NOT decided by proof (it needs the multiplicativity of the quadratic character); it is covered by
the contract-directed search on the real code only."""
import re
from vc import FnSpec, Case, ref
from poly import Poly, V, C
from interp import S, Some, NONE, B, is_struct, Violation, Unsupported
from contracts import unref
from facts import Q, Infeasible
import tower
from tower import SYM, mk, fresh

SPECS = []
K4 = (Q - 1) // 4
K8 = (Q - 5) // 8
X = V('X')

def h_const(val):
    def h(cx, interp, func, st, c, args):
        return [(st, ('ref', ('intconst', val)))]
    return h

def h_pow(cx, interp, func, st, c, args):
    """contract of FieldElement::pow (obligation fields::FieldElement::pow): x^e for the canonical integer e of the exponent"""
    x = unref(interp, st, args[0]); e = unref(interp, st, args[1])
    if not (isinstance(e, tuple) and e[0] == 'intconst'):
        raise Unsupported("pow with a non-constant exponent")
    x = st.facts.norm(x)
    if not isinstance(x, Poly) or x.nterms() != 1:
        raise Unsupported("pow of a non-monomial in the exponent domain")
    (m, cf), = x.t.items()
    q = st.facts.char
    return [(st, Poly({tuple((v, k * e[1]) for v, k in m): pow(cf % q, e[1], q)}))]

def h_uf_val(cx, interp, func, st, c, args):
    return [(st, ('uf', c, tuple(args)))]

def h_uf_bool(cx, interp, func, st, c, args):
    return [(st.fork(), B(True)), (st.fork(), B(False))]

EXQ = {
    r'^<FQ_MINUS1_DIV4 as Deref>::deref$': h_const(K4),
    r'^<FQ_MINUS5_DIV8 as Deref>::deref$': h_const(K8),
    r'^<Fq as FieldElement>::pow::<Fq>$': h_pow,
    r'^<U256 as From<Fq>>::from$': h_uf_val,
    r'^<U256 as PartialOrd>::lt$': h_uf_bool,
}

def fq_cases():
    def sq(facts):
        facts.assume_nonzero(X)
        facts.add_rule('X', (Q - 1) // 2, C(1))
    def nsq(facts):
        facts.assume_nonzero(X)
        facts.add_rule('X', (Q - 1) // 2, C(-1))
    return [Case('zero', [ref(Poly())]), Case('square', [ref(X)], sq), Case('non_square', [ref(X)], nsq)]

def fq_post(case, st, ret, interp):
    if case.name == 'zero':
        if ret[1] != 'Some' or not st.facts.is_zero(ret[2][0]):
            raise Violation("sqrt(0) must be Some(0)")
        return [('sqrt_of_zero', [])]
    if case.name == 'non_square':
        if ret[1] != 'None':
            raise Violation("sqrt of a non-square returned Some")
        return [('none_for_non_squares', [])]
    if ret[1] != 'Some':
        raise Violation("sqrt of a non-zero square returned None (path %s)" % ' '.join(st.trace[-6:]))
    s = ret[2][0]
    return [('root_squares_to_x', [s * s - X])]
SPECS.append(FnSpec('fp::Fq::sqrt', 'src/fields/fp.rs', r'<impl>::sqrt$', r'^\(&Fq\) -> Option<Fq>$', ('Fq',), fq_cases, fq_post, extra=EXQ, prop=('C14',)))

# ---------------------------------------------------------------- Fq2::sqrt (soundness)
def h_fq_sqrt(cx, interp, func, st, c, args):
    """contract of Fq::sqrt (obligations above): None, or Some(s) with s*s = x"""
    x = unref(interp, st, args[0])
    out = []
    s1 = st.fork()
    out.append((s1, NONE))
    s2 = st.fork()
    s2.facts.fresh += 1
    nm = 'rt%d' % s2.facts.fresh
    s2.facts.add_rule(nm, 2, s2.facts.norm(x))
    out.append((s2, Some(V(nm))))
    return out

EX2 = {r'^Fq::sqrt$': h_fq_sqrt}

def fq2_cases():
    x = fresh('Fq2', 'a', ('Fq',))
    return [Case('zero', [ref(SYM.zero('Fq2', x))]), Case('any', [ref(x)], None, {'x': x})]
def fq2_post(case, st, ret, interp):
    if case.name == 'zero':
        if ret[1] != 'Some' or not all(st.facts.is_zero(p) for p in SYM.leaves(ret[2][0])):
            raise Violation("sqrt(0) must be Some(0)")
        return [('sqrt_of_zero', [])]
    if ret[1] == 'None':
        return [('none_path', [])]
    x = case.aux['x']
    s = ret[2][0]
    return [('returned_root_squares_to_x', SYM.eq_components('Fq2', SYM.mul('Fq2', s, s), x))]
SPECS.append(FnSpec('fq2::sqrt', 'src/fields/fq2.rs', r'<impl>::sqrt$', r'^\(&Fq2\) -> Option<Fq2>$', ('Fq',), fq2_cases, fq2_post, extra=EX2, prop=('C14',), max_paths=2000))
