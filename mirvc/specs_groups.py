"""Function specs for groups.rs (layer L4), generic over the base field `P::Base`.

View of a Jacobian value (X, Y, Z):  O if Z = 0, else the affine point (X/Z^2, Y/Z^3).
Inputs are parametrised by the *specification*: an identity representative (X, Y, 0) with arbitrary
X, Y, or a finite point (a z^2, b z^3, z) with z != 0, b^2 = a^3 + B (on the curve) and b != 0
(group elements have no 2-torsion, A4).  The expected result is the textbook affine chord-and-tangent
law written out case by case (generic / equal / opposite / identity operands); the case split covers all
pairs because two curve points with equal x have y2 = +-y1.
"""
from vc import FnSpec, Case, ref
from poly import Poly, V, C
from interp import S, Some, NONE, B, is_struct, Violation, Unsupported
from contracts import unref
from facts import Infeasible
import tower
from tower import SYM

FILE = 'src/groups.rs'
SPECS = []
BC = V('B_')          # curve coefficient b (value of P::coeff_b())

def G(x, y, z):
    return S('G', [x, y, z])

def AF(x, y):
    return S('AffineG', [x, y])

class Pt:
    """a spec-level input point"""
    def __init__(self, kind, i):
        self.kind = kind
        self.i = i
        if kind == 'inf':
            self.rep = G(V('X%d' % i), V('Y%d' % i), Poly())
            self.aff = None
        elif kind == 'aff':
            self.a, self.b = V('a%d' % i), V('b%d' % i)
            self.rep = G(self.a, self.b, C(1))
            self.aff = (self.a, self.b)
        else:
            self.a, self.b, self.z = V('a%d' % i), V('b%d' % i), V('z%d' % i)
            self.rep = G(self.a * self.z ** 2, self.b * self.z ** 3, self.z)
            self.aff = (self.a, self.b)

    def setup(self, facts):
        if self.kind == 'inf':
            return
        facts.add_rule('b%d' % self.i, 2, self.a ** 3 + BC)
        facts.assume_nonzero(self.b)                      # A4: no 2-torsion
        if self.kind == 'jac':
            facts.assume_nonzero(self.z)

def frac(n, d=None):
    return (n, d if d is not None else C(1))

def chord(P, Q):
    (a1, b1), (a2, b2) = P, Q
    D = a2 - a1
    N = b2 - b1
    xn = N * N - (a1 + a2) * D * D
    xd = D * D
    yn = N * (a1 * xd - xn) - b1 * D ** 3
    yd = D ** 3
    return (xn, xd, yn, yd)

def tangent(P):
    a, b = P
    xn = 9 * a ** 4 - 8 * a * b * b
    xd = 4 * b * b
    yn = 3 * a * a * (a * xd - xn) - 8 * b ** 4
    yd = 8 * b ** 3
    return (xn, xd, yn, yd)

def as_frac(P):
    if P is None:
        return None
    return (P[0], C(1), P[1], C(1))

def denotes(st, ret, expected, what='result'):
    """clauses stating that the Jacobian value `ret` denotes the affine point `expected` (None = identity) and is a valid representative"""
    X, Y, Z = ret[2]
    f = st.facts
    if expected is None:
        return [(what + '_is_identity', [Z])]
    if not f.is_nonzero(Z):
        if f.is_zero(Z):
            raise Violation("%s has z = 0 although the specification demands a finite point" % what)
        raise Violation("%s: cannot establish z != 0 for a finite expected point (z = %r)" % (what, f.norm(Z)))
    xn, xd, yn, yd = expected
    return [(what + '_x', [X * xd - xn * Z ** 2]), (what + '_y', [Y * yd - yn * Z ** 3]),
            (what + '_on_curve', [Y * Y - X ** 3 - BC * Z ** 6])]

# --------------------------------------------------------------------------------------------------
# Jacobian-level contracts of the group operations (used at call sites inside groups.rs / lib.rs / pairings.rs)

def jac_affine(st, P):
    """forks on z = 0; returns list of (state, None | (xn, xd, yn, yd)) giving the affine view of a Jacobian value"""
    from contracts import Contracts
    X, Y, Z = P[2]
    out = []
    for s, z in st.contracts_ref.fork_zero(st, Z, 'z'):
        if z:
            out.append((s, None))
        else:
            out.append((s, (X, Z ** 2, Y, Z ** 3)))
    return out

def fresh_rep(st, expected, tag):
    """an arbitrary valid representative of the expected point: (x zeta^2, y zeta^3, zeta) with fresh zeta != 0, or (xi1, xi2, 0)"""
    f = st.facts
    f.fresh += 1
    k = f.fresh
    if expected is None:
        return G(V('xi%d' % k), V('eta%d' % k), Poly())
    xn, xd, yn, yd = expected
    zeta = V('zeta%d' % k)
    f.assume_nonzero(zeta)
    x = xn if xd == C(1) else xn * f.new_nu(xd)
    y = yn if yd == C(1) else yn * f.new_nu(yd)
    return G(x * zeta ** 2, y * zeta ** 3, zeta)

def spec_add_forks(cx, st, P, Q):
    """contract of G + G at the Jacobian level: every feasible relation between the operands, with the affine sum"""
    out = []
    for s1, p in jac_view(cx, st, P):
        for s2, q in jac_view(cx, s1, Q):
            if p is None:
                out.append((s2, q))
                continue
            if q is None:
                out.append((s2, p))
                continue
            # finite + finite: compare x (cross-multiplied), then y
            (x1n, x1d, y1n, y1d), (x2n, x2d, y2n, y2d) = p, q
            for s3, same_x in cx.fork_zero(s2, x1n * x2d - x2n * x1d, 'same_x'):
                if not same_x:
                    out.append((s3, chord_frac(p, q)))
                    continue
                for s4, same_y in cx.fork_zero(s3, y1n * y2d - y2n * y1d, 'same_y'):
                    if same_y:
                        out.append((s4, tangent_frac(p)))
                    else:
                        # equal x, different y on the curve  =>  opposite points
                        out.append((s4, None))
    return out

def jac_view(cx, st, P):
    X, Y, Z = P[2]
    out = []
    for s, z in cx.fork_zero(st, Z, 'z'):
        if z:
            out.append((s, None))
        else:
            out.append((s, (X, Z ** 2, Y, Z ** 3)))
    return out

def chord_frac(p, q):
    (x1n, x1d, y1n, y1d), (x2n, x2d, y2n, y2d) = p, q
    # lambda = (y2 - y1)/(x2 - x1)
    ln = (y2n * y1d - y1n * y2d) * (x1d * x2d)
    ld = (x2n * x1d - x1n * x2d) * (y1d * y2d)
    # x3 = lambda^2 - x1 - x2
    xn = ln * ln * x1d * x2d - (x1n * x2d + x2n * x1d) * ld * ld
    xd = ld * ld * x1d * x2d
    # y3 = lambda (x1 - x3) - y1
    yn = (ln * (x1n * xd - xn * x1d)) * y1d - y1n * (ld * x1d * xd)
    yd = ld * x1d * xd * y1d
    return (xn, xd, yn, yd)

def tangent_frac(p):
    x1n, x1d, y1n, y1d = p
    # lambda = 3 x^2 / (2 y)
    ln = 3 * x1n * x1n * y1d
    ld = 2 * y1n * x1d * x1d
    xn = ln * ln * x1d - 2 * x1n * ld * ld
    xd = ld * ld * x1d
    yn = (ln * (x1n * xd - xn * x1d)) * y1d - y1n * (ld * x1d * xd)
    yd = ld * x1d * xd * y1d
    return (xn, xd, yn, yd)

def h_is_zero(cx, interp, func, st, c, args):
    p = unref(interp, st, args[0])
    return [(s, B(z)) for s, z in cx.fork_zero(st, p[2][2], 'z')]

def h_zero(cx, interp, func, st, c, args):
    return [(st, G(Poly(), C(1), Poly()))]

def exact_rep(st, expected, z3):
    """the representative (x z3^2, y z3^3, z3) of a finite expected point with a prescribed z"""
    f = st.facts
    xn, xd, yn, yd = expected
    x = xn if xd == C(1) else xn * f.new_nu(xd)
    y = yn if yd == C(1) else yn * f.new_nu(yd)
    return G(x * z3 ** 2, y * z3 ** 3, z3)

def sum_rep(s, P, Q, e):
    """contract result of P + Q: any representative of the sum, except that for a right operand with z = 1 and a different x
    (mixed addition) the z coordinate is exactly z1 (x2 z1^2 - x1)  [obligation groups::add/*_aff_generic/z_is_z1_h]"""
    X1, Y1, Z1 = P[2]
    if e is not None and s.facts.is_zero(Q[2][2] - 1) and s.facts.is_nonzero(Z1) and s.facts.is_nonzero(Q[2][0] * Z1 * Z1 - X1):
        return exact_rep(s, e, Z1 * (Q[2][0] * Z1 * Z1 - X1))
    return fresh_rep(s, e, 'sum')

def h_add(cx, interp, func, st, c, args):
    P = unref(interp, st, args[0]); Q = unref(interp, st, args[1])
    return [(s, sum_rep(s, P, Q, e)) for s, e in spec_add_forks(cx, st, P, Q)]

def h_double(cx, interp, func, st, c, args):
    P = unref(interp, st, args[0])
    out = []
    for s, p in jac_view(cx, st, P):
        out.append((s, fresh_rep(s, None if p is None else tangent_frac(p), 'dbl')))
    return out

def h_neg(cx, interp, func, st, c, args):
    P = unref(interp, st, args[0])
    out = []
    for s, p in jac_view(cx, st, P):
        if p is None:
            out.append((s, fresh_rep(s, None, 'neg')))
        else:
            # obligation groups::neg additionally shows the representative (x, -y, z) itself (z unchanged)
            out.append((s, G(P[2][0], -P[2][1], P[2][2])))
    return out

def h_sub(cx, interp, func, st, c, args):
    P = unref(interp, st, args[0]); Q = unref(interp, st, args[1])
    Qn = G(Q[2][0], -Q[2][1], Q[2][2])
    return [(s, sum_rep(s, P, Qn, e)) for s, e in spec_add_forks(cx, st, P, Qn)]

def h_eq(cx, interp, func, st, c, args):
    P = unref(interp, st, args[0]); Q = unref(interp, st, args[1])
    neg = c.endswith('::ne')
    out = []
    for s1, p in jac_view(cx, st, P):
        for s2, q in jac_view(cx, s1, Q):
            if p is None or q is None:
                r = (p is None and q is None)
                out.append((s2, B(r != neg)))
                continue
            (x1n, x1d, y1n, y1d), (x2n, x2d, y2n, y2d) = p, q
            for s3, sx in cx.fork_zero(s2, x1n * x2d - x2n * x1d, 'eq_x'):
                if not sx:
                    out.append((s3, B(False != neg)))
                    continue
                for s4, sy in cx.fork_zero(s3, y1n * y2d - y2n * y1d, 'eq_y'):
                    out.append((s4, B(sy != neg)))
    return out

def h_coeff_b(cx, interp, func, st, c, args):
    return [(st, BC)]

def h_mul_fr(cx, interp, func, st, c, args):
    """contract of Mul<Fr>: some valid representative M of the point [k]P (identity or finite); the scalar is recorded"""
    P = unref(interp, st, args[0]); k = unref(interp, st, args[1])
    st.notes.append(('scalar_mul', repr(k)))
    outs = []
    s1 = st.fork()
    outs.append((s1, fresh_rep(s1, None, 'smul')))
    s2 = st.fork()
    f = s2.facts
    f.fresh += 1
    n = f.fresh
    ma, mb = V('ma%d' % n), V('mb%d' % n)
    f.add_rule('mb%d' % n, 2, ma ** 3 + BC)
    f.assume_nonzero(mb)
    outs.append((s2, fresh_rep(s2, (ma, C(1), mb, C(1)), 'smul')))
    return outs

def h_check_order(val):
    def h(cx, interp, func, st, c, args):
        if val is None:
            return [(st.fork(), B(True)), (st.fork(), B(False))]
        return [(st, B(val))]
    return h

GROUP_EXTRA = {
    r'^<G<\w+> as Zero>::is_zero$': h_is_zero,
    r'^<G<\w+> as Zero>::zero$': h_zero,
    r'^<G<\w+> as Add>::add$': h_add,
    r'^<G<\w+> as Add<&G<\w+>>>::add$': h_add,
    r'^<&G<\w+> as Add<G<\w+>>>::add$': h_add,
    r'^<G<\w+> as Sub>::sub$': h_sub,
    r'^<G<\w+> as Neg>::neg$': h_neg,
    r'^<G<\w+> as GroupElement>::double$': h_double,
    r'^<G<\w+> as PartialEq>::(eq|ne)$': h_eq,
    r'^<G<\w+> as Mul<Fr>>::mul$': h_mul_fr,
    r'^<\w+ as GroupParams>::coeff_b$': h_coeff_b,
}

def add(fid, name, sig, cases, post, prop, extra=None, max_paths=600):
    ex = dict(GROUP_EXTRA)
    if extra:
        ex.update(extra)
    SPECS.append(FnSpec(fid, FILE, name, sig, ('Base', 'Fr'), cases, post, extra=ex, prop=tuple(prop) + ('C16',), max_paths=max_paths))

def setup_pts(*pts, more=None):
    def setup(facts):
        for p in pts:
            p.setup(facts)
        if more:
            more(facts)
    return setup

# --------------------------------------------------------------------------------------------------
# double
def dbl_cases():
    out = []
    for kind in ('inf', 'aff', 'jac'):
        p = Pt(kind, 1)
        out.append(Case(kind, [ref(p.rep)], setup_pts(p), aux={'p': p}))
    return out
def dbl_post(case, st, ret, interp):
    p = case.aux['p']
    X, Y, Z = p.rep[2]
    # callers in pairings.rs (g_tangent) rely on the exact z of the doubling formula: z3 = 2 y1 z1
    return denotes(st, ret, None if p.aff is None else tangent(p.aff)) + [('z_is_2yz', [ret[2][2] - 2 * Y * Z])]
add('groups::double', r'<impl>::double$', r'^\(&G<P>\) -> G<P>$', dbl_cases, dbl_post, ('C04',))

# add
def add_cases():
    out = []
    for k1 in ('aff', 'jac'):
        for k2 in ('aff', 'jac'):
            for rel in ('generic', 'equal', 'opposite'):
                p, q = Pt(k1, 1), Pt(k2, 2)
                def more(facts, rel=rel, p=p, q=q):
                    if rel == 'generic':
                        facts.assume_nonzero(q.a - p.a)
                    elif rel == 'equal':
                        for alt in facts.assume_zero(q.a - p.a):
                            pass
                        facts.assume_zero(q.b - p.b)
                    else:
                        facts.assume_zero(q.a - p.a)
                        facts.assume_zero(q.b + p.b)
                out.append(Case('%s_%s_%s' % (k1, k2, rel), [p.rep, q.rep], setup_pts(p, q, more=more), aux={'p': p, 'q': q, 'rel': rel}))
    for k in ('aff', 'jac', 'inf'):
        p, q = Pt('inf', 1), Pt(k, 2)
        out.append(Case('inf_%s' % k, [p.rep, q.rep], setup_pts(p, q), aux={'p': p, 'q': q, 'rel': 'left_identity'}))
        if k != 'inf':
            p, q = Pt(k, 1), Pt('inf', 2)
            out.append(Case('%s_inf' % k, [p.rep, q.rep], setup_pts(p, q), aux={'p': p, 'q': q, 'rel': 'right_identity'}))
    return out
def expected_sum(aux):
    p, q, rel = aux['p'], aux['q'], aux['rel']
    if rel == 'left_identity':
        return as_frac(q.aff)
    if rel == 'right_identity':
        return as_frac(p.aff)
    if rel == 'generic':
        return chord(p.aff, q.aff)
    if rel == 'equal':
        return tangent(p.aff)
    return None
def add_post(case, st, ret, interp):
    r = unref(interp, st, ret)
    cl = denotes(st, r, expected_sum(case.aux))
    p, q, rel = case.aux['p'], case.aux['q'], case.aux['rel']
    if rel == 'generic' and q.kind == 'aff':
        # callers in pairings.rs (g_line) rely on the exact z of the mixed addition: z3 = z1 (x2 z1^2 - x1)
        X1, Y1, Z1 = p.rep[2]
        cl = cl + [('z_is_z1_h', [r[2][2] - Z1 * (q.a * Z1 * Z1 - X1)])]
    return cl
add('groups::add', r'<impl>::add$', r'^\(G<P>, G<P>\) -> G<P>$', add_cases, add_post, ('C04',))
add('groups::add_ref_rhs', r'<impl>::add$', r'^\(G<P>, &G<P>\) -> G<P>$',
    lambda: [Case(c.name, [c.args[0], ref(c.args[1])], c.setup, c.aux) for c in add_cases()], add_post, ('C04',))
add('groups::add_ref_lhs', r'<impl>::add$', r'^\(&G<P>, G<P>\) -> G<P>$',
    lambda: [Case(c.name, [ref(c.args[0]), c.args[1]], c.setup, c.aux) for c in add_cases()], add_post, ('C04',))

# sub: P - Q = P + (-Q)
def sub_cases():
    cs = add_cases()
    out = []
    for c in cs:
        q = c.aux['q']
        rep = q.rep
        neg = G(rep[2][0], -rep[2][1], rep[2][2])     # feed -Q so that the expected value is that of P + Q
        out.append(Case(c.name, [c.args[0], neg], c.setup, c.aux))
    return out
def sub_post(case, st, ret, interp):
    # the property fixes the denoted point of A - B, not its representative (no caller relies on one)
    return denotes(st, unref(interp, st, ret), expected_sum(case.aux))
add('groups::sub', r'<impl>::sub$', r'^\(G<P>, G<P>\) -> G<P>$', sub_cases, sub_post, ('C04',))

# neg
def neg_cases():
    out = []
    for kind in ('inf', 'aff', 'jac'):
        p = Pt(kind, 1)
        out.append(Case(kind, [p.rep], setup_pts(p), aux={'p': p}))
    return out
def neg_post(case, st, ret, interp):
    p = case.aux['p']
    cl = denotes(st, ret, None if p.aff is None else (p.a, C(1), -p.b, C(1)))
    if p.aff is not None:
        X, Y, Z = p.rep[2]
        cl = cl + [('same_x_z_negated_y', [ret[2][0] - X, ret[2][1] + Y, ret[2][2] - Z])]
    return cl
add('groups::neg', r'<impl>::neg$', r'^\(G<P>\) -> G<P>$', neg_cases, neg_post, ('C04',))
def aneg_post(case, st, ret, interp):
    x, y = case.args[0][2]
    return [('post', [ret[2][0] - x, ret[2][1] + y])]
add('groups::affine_neg', r'<impl>::neg$', r'^\(AffineG<P>\) -> AffineG<P>$', lambda: [Case('all', [AF(V('a1'), V('b1'))])], aneg_post, ('C04',))

# add_assign (both forms): *self = *self + rhs
def aa_cases(byref):
    def cases():
        out = []
        for c in add_cases():
            def setup(facts, c=c):
                c.setup(facts)
            out.append(Case(c.name, [('mref', 0, 1000, ()), ref(c.args[1]) if byref else c.args[1]], setup, dict(c.aux, mem={(0, 1000): c.args[0]})))
        return out
    return cases
def aa_post(case, st, ret, interp):
    val = st.mem[(0, 1000)]
    cl = denotes(st, val, expected_sum(case.aux))
    p, q, rel = case.aux['p'], case.aux['q'], case.aux['rel']
    if rel == 'generic' and q.kind == 'aff':
        X1, Y1, Z1 = p.rep[2]
        cl = cl + [('z_is_z1_h', [val[2][2] - Z1 * (q.a * Z1 * Z1 - X1)])]
    return cl
# (mutable-reference parameters are initialised by vc through aux['init'])
add('groups::add_assign', r'<impl>::add_assign$', r'^\(&mut G<P>, G<P>\)', aa_cases(False), aa_post, ('C04',))
add('groups::add_assign_ref', r'<impl>::add_assign$', r'^\(&mut G<P>, &G<P>\)', aa_cases(True), aa_post, ('C04',))

# zero / is_zero
def zero_post(case, st, ret, interp):
    X, Y, Z = ret[2]
    return [('denotes_identity', [Z]), ('exact_identity_0_1_0', [X, Y - 1, Z])]
add('groups::zero', r'<impl>::zero$', r'^\(\) -> G<P>$', lambda: [Case('all', [])], zero_post, ('C04', 'C15'))
def isz_cases():
    out = []
    for kind in ('inf', 'aff', 'jac'):
        p = Pt(kind, 1)
        out.append(Case(kind, [ref(p.rep)], setup_pts(p), aux={'p': p}))
    return out
def isz_post(case, st, ret, interp):
    want = case.aux['p'].aff is None
    if ret[1] != want:
        raise Violation("is_zero = %s for a value that denotes %s" % (ret[1], 'the identity' if want else 'a finite point'))
    return [('post', [])]
add('groups::is_zero', r'<impl>::is_zero$', r'^\(&G<P>\) -> bool$', isz_cases, isz_post, ('C15',))

# ==  : true exactly when both values denote the same point
def eq_cases():
    out = []
    kinds = ('inf', 'aff', 'jac')
    for k1 in kinds:
        for k2 in kinds:
            if k1 == 'inf' or k2 == 'inf':
                p, q = Pt(k1, 1), Pt(k2, 2)
                out.append(Case('%s_%s' % (k1, k2), [ref(p.rep), ref(q.rep)], setup_pts(p, q), aux={'same': k1 == 'inf' and k2 == 'inf'}))
                continue
            for rel in ('generic', 'equal', 'opposite', 'same_y_other_x'):
                p, q = Pt(k1, 1), Pt(k2, 2)
                def more(facts, rel=rel, p=p, q=q):
                    if rel == 'generic':
                        facts.assume_nonzero(q.a - p.a)
                    elif rel == 'equal':
                        facts.assume_zero(q.a - p.a)
                        facts.assume_zero(q.b - p.b)
                    elif rel == 'opposite':
                        facts.assume_zero(q.a - p.a)
                        facts.assume_zero(q.b + p.b)
                    else:
                        facts.assume_nonzero(q.a - p.a)
                        facts.assume_zero(q.b - p.b)
                out.append(Case('%s_%s_%s' % (k1, k2, rel), [ref(p.rep), ref(q.rep)], setup_pts(p, q, more=more), aux={'same': rel == 'equal'}))
    return out
def eq_post(case, st, ret, interp):
    if ret[1] != case.aux['same']:
        raise Violation("== returned %s for two values that %s the same point" % (ret[1], 'denote' if case.aux['same'] else 'do not denote'))
    return [('post', [])]
add('groups::eq', r'<impl>::eq$', r'^\(&G<P>, &G<P>\) -> bool$', eq_cases, eq_post, ('C15',))

# to_affine / to_jacobian
def toaff_cases():
    out = []
    for kind in ('inf', 'aff', 'jac'):
        p = Pt(kind, 1)
        out.append(Case(kind, [p.rep], setup_pts(p), aux={'p': p}))
    return out
def toaff_post(case, st, ret, interp):
    p = case.aux['p']
    if p.aff is None:
        if ret[1] != 'None':
            raise Violation("to_affine of the identity must be None")
        return [('none_iff_identity', [])]
    if ret[1] != 'Some':
        raise Violation("to_affine of a finite point returned None")
    x, y = ret[2][0][2]
    return [('affine_x', [x - p.a]), ('affine_y', [y - p.b])]
add('groups::to_affine', r'<impl>::to_affine$', None, toaff_cases, toaff_post, ('C15', 'C10'))
def tojac_post(case, st, ret, interp):
    x, y = case.args[0][2]
    X, Y, Z = ret[2]
    return [('post', [X - x, Y - y, Z - 1])]
add('groups::to_jacobian', r'<impl>::to_jacobian$', None, lambda: [Case('all', [AF(V('a1'), V('b1'))])], tojac_post, ('C15',))

# AffineG::new : Ok iff on the curve and (check_order => [r-1]P + P = O)
def anew_cases():
    out = []
    for order in (False, True):
        for oncurve in (True, False):
            a, b = V('a1'), V('b1')
            def setup(facts, oncurve=oncurve):
                if oncurve:
                    facts.add_rule('b1', 2, V('a1') ** 3 + BC)
                    facts.assume_nonzero(V('b1'))
                else:
                    facts.assume_nonzero(V('b1') ** 2 - V('a1') ** 3 - BC)
            out.append(Case('order%d_curve%d' % (order, oncurve), [a, b], setup, aux={'order': order, 'oncurve': oncurve}))
    return out
def anew_extra(order):
    return {r'^<\w+ as GroupParams>::check_order$': h_check_order(order)}
def anew_post(case, st, ret, interp):
    aux = case.aux
    tr = ' '.join(st.trace)
    if not aux['oncurve']:
        if ret[1] != 'Err':
            raise Violation("AffineG::new accepted a pair that is not on the curve")
        return [('rejects_off_curve', [])]
    if not aux['order']:
        if ret[1] != 'Ok':
            raise Violation("AffineG::new (no subgroup check) rejected a curve point")
        x, y = ret[2][0][2]
        return [('ok_is_input', [x - V('a1'), y - V('b1')])]
    # subgroup check: the scalar must be -1 (= r-1 in Fr) and the verdict must follow M + P == O where M = [r-1]P
    scal = [n for n in st.notes if isinstance(n, tuple) and n[0] == 'scalar_mul']
    if len(scal) != 1 or scal[0][1] != repr(C(-1)):
        raise Violation("subgroup test does not multiply by -1 (r-1): %r" % (scal,))
    # decide from the path which relation held between M and P: the sum is O iff M = -P
    opposite = ('same_x==0' in tr and 'same_y!=0' in tr)
    m_identity = 'z==0' in tr.split('same_x')[0] if 'same_x' in tr else ('z==0' in tr)
    sum_is_O = opposite
    if ret[1] == 'Ok':
        if not sum_is_O:
            raise Violation("AffineG::new accepted a point although [r-1]P + P != O on this path (%s)" % tr)
        x, y = ret[2][0][2]
        return [('ok_is_input', [x - V('a1'), y - V('b1')])]
    if sum_is_O:
        raise Violation("AffineG::new rejected a point of the order-r subgroup ([r-1]P + P = O on this path)")
    return [('rejects_outside_subgroup', [])]
for order in (False, True):
    SPECS.append(FnSpec('groups::affine_new_order%d' % order, FILE, r'<impl>::new$', r'-> Result<AffineG<P>', ('Base', 'Fr'),
                        (lambda order=order: [c for c in anew_cases() if c.aux['order'] == order]), anew_post,
                        extra=dict(GROUP_EXTRA, **anew_extra(order)), prop=('C09',)))
