"""Callee contracts used by the mirvc interpreter.

`Contracts.call` maps a resolved MIR callee path to the *contract* of that
function at the current abstraction level (never to its body):

  * ring operations of the atomic types of the level -> polynomial operations
  * operations of tower types above the level        -> the spec algebra of tower.py
    (these are exactly the postconditions that the callee's own obligation
     `…/post` establishes, so the hand-over is callee-post == caller-assumption)
  * is_zero / == on ring elements                     -> a fork with hypotheses
  * inverse                                           -> None iff 0, else Some(nu), x*nu = 1
  * Option / Result combinators of core (A9)          -> their definitions
"""
import re
from poly import Poly, V, C
from facts import Facts, Infeasible
from interp import Unsupported, Violation, S, Some, NONE, B, is_struct
import tower
from tower import SYM

# --------------------------------------------------------------------------
# callee-name normalisation

def norm_types(c):
    """canonical type names: inner field types Fq/Fr/Fq2/Fq4/Fq12, generic group G, lib.rs newtype wrappers L<name>"""
    c = re.sub(r"'\w+ ", '', c)                 # lifetimes
    c = c.replace('@', '\x02')
    c = re.sub(r'\b(?:fields::)?fp::(Fq|Fr)\b', r'@\1@', c)
    c = re.sub(r'\b(?:fields::)?fq2::Fq2\b', '@Fq2@', c)
    c = re.sub(r'\b(?:fields::)?fq4::Fq4\b', '@Fq4@', c)
    c = re.sub(r'\b(?:fields::)?fq12::Fq12\b', '@Fq12@', c)
    c = re.sub(r'\bfields::(Fq12|Fq4|Fq2|Fq|Fr)\b', r'@\1@', c)
    c = re.sub(r'\bgroups::(G1|G2)\b', r'G<\1Params>', c)
    c = re.sub(r'\bgroups::(AffineG1|AffineG2)\b', r'AffineG<\1>', c)
    c = re.sub(r'\bgroups::', '', c)
    # bare names are the lib.rs newtype wrappers (Fq4 / Fq12 have no wrapper)
    c = re.sub(r'(?<![@\w:])(Fq2|Fq|Fr|G1|G2|Gt|AffineG1|AffineG2)(?![\w@<])', r'L\1', c)
    c = c.replace('@', '').replace('\x02', '@')
    return c

def norm_callee(c):
    c = norm_types(c)
    c = re.sub(r'\bark_ff::', '', c)
    c = re.sub(r'\bnum_traits::', '', c)
    c = re.sub(r'\bcore::(?:ops|cmp|option|result|convert)::', '', c)
    c = re.sub(r'\bops::', '', c)
    c = re.sub(r'\bpairings::<impl (Fq12)>::pow\b', r'Fq12::pow_u128', c)
    c = re.sub(r'\bpairings::<impl G<G2Params>>::', 'G2::', c)
    c = re.sub(r'\bpairings::<impl (\w+)>::', r'\1::', c)
    c = c.replace('<P as GroupParams>::Base', 'Base')
    c = re.sub(r'<(G1Params|G2Params) as GroupParams>::Base', 'Base', c)
    return c

FIELD_TYS = ('Fq', 'Fq2', 'Fq4', 'Fq12', 'Base', 'Fr')

def unref(interp, st, v):
    while isinstance(v, tuple) and v and v[0] in ('ref', 'mref'):
        v = interp.deref(st, v)
    return v

class Contracts:
    def __init__(self, level_atoms, extra=None):
        self.atoms = set(level_atoms)
        self.extra = extra or {}        # name regex -> handler(interp, func, st, callee, args)
        self.used = []                  # (callee, contract id) log: the hand-over list of the evidence

    # ---------------------------------------------------------------- helpers
    def ring_ty(self, c):
        """type name inside <T as Trait> / T::method"""
        m = re.match(r'^<&?(?:mut )?(\w+)(?: as [^>]*(?:<[^>]*>)?)?>::', c)
        if m:
            return m.group(1)
        m = re.match(r'^(\w+)::', c)
        if m:
            return m.group(1)
        return None

    def fork_zero(self, st, p, what):
        """[(state, True)] / [(state, False)] / both, for the test p == 0"""
        f = st.facts
        if f.is_zero(p):
            return [(st, True)]
        if f.is_nonzero(p):
            return [(st, False)]
        outs = []
        # branch p = 0
        try:
            s1 = st.fork()
            alts = s1.facts.assume_zero(p)
            for k, fa in enumerate(alts):
                s = s1 if k == 0 else s1.fork()
                s.facts = fa
                s.trace.append('%s==0' % what)
                outs.append((s, True))
        except Infeasible:
            pass
        try:
            s2 = st.fork()
            s2.facts.assume_nonzero(p)
            s2.trace.append('%s!=0' % what)
            outs.append((s2, False))
        except Infeasible:
            pass
        return outs

    def fork_all_zero(self, st, polys, what):
        """test (p1 == 0 && p2 == 0 && ...) -> list of (state, bool)"""
        results = []
        work = [(st, 0)]
        while work:
            s, i = work.pop()
            if i == len(polys):
                results.append((s, True))
                continue
            for s2, z in self.fork_zero(s, polys[i], '%s.%d' % (what, i)):
                if z:
                    work.append((s2, i + 1))
                else:
                    results.append((s2, False))
        return results

    def leaves(self, v):
        return SYM.leaves(v)

    # ---------------------------------------------------------------- dispatcher
    def call(self, interp, func, st, callee, args):
        c = norm_callee(callee)
        for pat, h in self.extra.items():
            if pat.startswith('__'):
                continue
            if re.search(pat, c):
                r = h(self, interp, func, st, c, args)
                if r is not None:
                    self.used.append((c, 'extra:' + pat))
                    return r
        # ---- uninterpreted callees (delegation obligations): the caller is verified to *be* the stated composition
        for pat, kind in self.extra.get('__uf__', []):
            if re.search(pat, c):
                ca = tuple(canon(interp, st, x) for x in args)
                self.used.append((c, 'uninterpreted:' + kind))
                if kind == 'val':
                    return [(st, ('uf', c, ca))]
                if kind == 'some':
                    # total on the arguments that reach it (stated assumption of the caller's contract)
                    return [(st, Some(('uf', c, ca)))]
                if kind == 'unit':
                    st.notes.append(('ufcall', c, ca))
                    return [(st, S('()', []))]
                if kind == 'bool':
                    s1 = st.fork(); s1.notes.append(('ufb', c, ca, True))
                    s2 = st.fork(); s2.notes.append(('ufb', c, ca, False))
                    return [(s1, B(True)), (s2, B(False))]
                if kind in ('opt', 'res'):
                    s1 = st.fork(); s1.notes.append(('ufo', c, ca, None))
                    s2 = st.fork()
                    s2.facts.fresh += 1
                    k = s2.facts.fresh
                    s2.notes.append(('ufo', c, ca, k))
                    none = NONE if kind == 'opt' else ('enum', 'Err', [('uf', 'err:' + c, ca)])
                    return [(s1, none), (s2, ('enum', 'Some' if kind == 'opt' else 'Ok', [('ufp', k)]))]
        a = [unref(interp, st, x) for x in args]
        ty = self.ring_ty(c)
        # ---- coordinate accessors of the group types
        m = re.match(r'^(G|AffineG)::<\w+>::(x|y|z)$', c)
        if m and is_struct(a[0]):
            return [(st, ('ref', a[0][2]['xyz'.index(m.group(2))]))]
        m = re.match(r'^<(LG1|LG2) as (Add|Sub|Neg|Mul<LFr>)>::(add|sub|neg|mul)$', c)
        if m:
            # contract of the lib.rs group wrappers (their own delegation obligations): wrap(inner op(unwrapped))
            P = 'G1Params' if m.group(1) == 'LG1' else 'G2Params'
            tr = {'Mul<LFr>': 'Mul<Fr>'}.get(m.group(2), m.group(2))
            ia = tuple(canon(interp, st, x[2][0] if is_struct(x) and x[1].startswith('L') else x) for x in a)
            return [(st, S(m.group(1), [('uf', '<G<%s> as %s>::%s' % (P, tr, m.group(3)), ia)]))]
        meth = re.sub(r'::<[^:]*>$', '', c).split('::')[-1]
        meth = re.sub(r'<.*$', '', meth)

        # ---- core combinators (A9)
        if re.match(r'^Option::<.*>::map::<', c) or re.match(r'^Result::<.*>::map::<', c):
            return self.opt_map(interp, st, args, c)
        if re.match(r'^Option::<.*>::and_then::<', c):
            return self.opt_and_then(interp, st, args)
        if re.match(r'^Option::<.*>::is_none$', c):
            return [(st, B(a[0][1] == 'None'))]
        if re.match(r'^Option::<.*>::is_some$', c):
            return [(st, B(a[0][1] == 'Some'))]
        if re.match(r'^Option::<.*>::unwrap$', c) or re.match(r'^Option::<.*>::expect$', c) \
                or re.match(r'^Result::<.*>::unwrap$', c):
            if a[0][1] in ('Some', 'Ok'):
                return [(st, a[0][2][0])]
            raise Violation("unwrap()/expect() on None/Err is reachable", st)
        if re.match(r'^Option::<.*>::ok_or::<', c):
            if a[0][1] == 'Some':
                return [(st, ('enum', 'Ok', a[0][2]))]
            return [(st, ('enum', 'Err', [args[1]]))]
        if re.match(r'^Result::<.*>::ok$', c):
            if a[0][1] == 'Ok':
                return [(st, Some(a[0][2][0]))]
            return [(st, NONE)]
        if re.match(r'^Result::<.*>::map_err::<', c):
            if a[0][1] == 'Ok':
                return [(st, a[0])]
            return [(st, ('enum', 'Err', [('opaque', 'mapped error')]))]
        if re.match(r'^<Option<.*> as Try>::branch$', c):
            if a[0][1] == 'Some':
                return [(st, ('enum', 'Continue', [a[0][2][0]]))]
            return [(st, ('enum', 'Break', [NONE]))]
        if re.match(r'^<Result<.*> as Try>::branch$', c):
            if a[0][1] == 'Ok':
                return [(st, ('enum', 'Continue', [a[0][2][0]]))]
            return [(st, ('enum', 'Break', [a[0]]))]
        if re.match(r'^<Option<.*> as FromResidual.*>::from_residual$', c):
            return [(st, NONE)]
        if re.match(r'^<Result<.*> as FromResidual.*>::from_residual$', c):
            return [(st, ('enum', 'Err', [('opaque', 'converted error')]))]
        if re.search(r' as Into<.*>>::into$', c) or re.search(r' as From<.*>>::from$', c):
            h = self.extra.get('__into__')
            if h:
                return h(self, interp, func, st, c, args)
            raise Unsupported("conversion " + c)
        m = re.match(r'^<(\w+) as Deref>::deref$', c)
        if m:
            k = self.extra.get('__consts__', {})
            if m.group(1) in k:
                return [(st, ('ref', ('u256', k[m.group(1)])))]
            raise Unsupported("unknown static " + m.group(1))
        if re.match(r'^Vec::<.*>::new$', c):
            return [(st, ('vec', ()))]
        if re.match(r'^Vec::<.*>::is_empty$', c):
            v = unref(interp, st, args[0])
            if isinstance(v, tuple) and v and v[0] == 'vec':
                return [(st, B(len(v[1]) == 0))]
            if isinstance(v, tuple) and v and v[0] == 'vecsym':
                s1 = st.fork(); s1.notes.append(('vec_empty', v[1], True))
                s2 = st.fork(); s2.notes.append(('vec_empty', v[1], False))
                return [(s1, B(True)), (s2, B(False))]
            raise Unsupported("Vec::is_empty on an unknown value")
        if re.search(r'as Clone>::clone$', c):
            return [(st, a[0])]

        # ---- lib.rs newtypes over field elements: contract = inner contract on the wrapped value
        if ty in ('LFq', 'LFr', 'LFq2'):
            inner = ty[1:]
            def unw(v):
                return v[2][0] if (is_struct(v) and v[1] == ty) else v
            ia = [unw(x) for x in a]
            r = self.field_op(interp, st, inner, meth, c, ia, args)
            if r is not None:
                self.used.append((c, 'newtype:%s::%s' % (ty, meth)))
                out = []
                for s2, v in r:
                    if meth in ('is_zero', 'is_one', 'eq', 'ne') or (isinstance(v, tuple) and v and v[0] in ('bool',)):
                        out.append((s2, v))
                    elif isinstance(v, tuple) and v and v[0] == 'enum':
                        out.append((s2, ('enum', v[1], [S(ty, [x]) for x in v[2]])))
                    elif meth in ('mul_assign', 'add_assign', 'sub_assign'):
                        out.append((s2, v))
                    else:
                        out.append((s2, S(ty, [v])))
                return out
        # ---- ring / tower operations
        if ty in FIELD_TYS:
            r = self.field_op(interp, st, ty, meth, c, a, args)
            if r is not None:
                self.used.append((c, 'field:%s::%s' % (ty, meth)))
                return r
        # ---- a crate-local callee without a registered contract (e.g. a helper introduced by an edit):
        #      its MIR body is part of the program text, so it is executed in place of a contract
        f = self.resolve_local(interp, c, ty, meth, len(args))
        if f is not None:
            self.used.append((c, 'inlined-body:' + f.name))
            st.notes.append('inlined ' + f.name)
            return list(interp.run(f, list(args), st))
        raise Unsupported("no contract for callee " + c)

    def resolve_local(self, interp, c, ty, meth, nargs):
        cands = []
        for name, f in interp.funcs.items():
            if '{closure' in name:
                continue
            if name.split('::')[-1] != meth or len(f.args) != nargs:
                continue
            cands.append(f)
        if ty and len(cands) > 1:
            hint = {'G': 'groups.rs', 'AffineG': 'groups.rs', 'G1': 'lib.rs', 'G2': 'lib.rs'}.get(ty, ty.lower() + '.rs')
            c2 = [f for f in cands if hint in f.key[0]]
            if c2:
                cands = c2
        if len(cands) == 1:
            return cands[0]
        return None

    # ---------------------------------------------------------------- Option helpers
    def opt_map(self, interp, st, args, c):
        o = unref(interp, st, args[0])
        fn = args[1]
        if o[1] in ('None',):
            return [(st, NONE)]
        if o[1] == 'Err':
            return [(st, o)]
        wrap = o[1]
        if fn[0] == 'closure':
            outs = interp.run_closure(st, fn, [o[2][0]])
            return [(s, ('enum', wrap, [v])) for s, v in outs]
        if fn[0] == 'fnitem':
            h = self.extra.get('__fnitem__')
            if h:
                v = h(self, interp, st, fn[1], o[2][0])
                return [(st, ('enum', wrap, [v]))]
            # tuple-struct constructor such as `Fq`, `Gt`
            from interp import short_ty
            return [(st, ('enum', wrap, [S(short_ty(fn[1]), [o[2][0]])]))]
        raise Unsupported("Option::map with " + str(fn[0]))

    def opt_and_then(self, interp, st, args):
        o = unref(interp, st, args[0])
        fn = args[1]
        if o[1] == 'None':
            return [(st, NONE)]
        if fn[0] == 'closure':
            return interp.run_closure(st, fn, [o[2][0]])
        raise Unsupported("Option::and_then with " + str(fn[0]))

    # ---------------------------------------------------------------- field contracts
    def field_op(self, interp, st, ty, meth, c, a, rawargs):
        A = SYM
        T = ty if ty not in ('Base', 'Fr') else 'Fq'     # Base / Fr are always atomic
        x = a[0] if a else None
        if meth == 'zero' and not a:
            return [(st, self.const_of(ty, 0))]
        if meth == 'one' and not a:
            return [(st, self.const_of(ty, 1))]
        if meth in ('add', 'add_inplace'):
            return [(st, A.add(T, a[0], a[1]))]
        if meth in ('sub', 'sub_inplace'):
            return [(st, A.sub(T, a[0], a[1]))]
        if meth in ('mul', 'mul_inplace') and len(a) == 2:
            return [(st, A.mul(T, a[0], a[1]))]
        if meth in ('neg', 'neg_inplace'):
            return [(st, A.neg(T, x))]
        if meth == 'double':
            return [(st, A.dbl(T, x))]
        if meth == 'triple':
            return [(st, A.scalar(T, x, 3))]
        if meth == 'squared':
            return [(st, A.mul(T, x, x))]
        if meth == 'mul_by_nonresidue' and ty in ('Fq2', 'Fq4'):
            return [(st, A.nonresidue_times(ty, x))]
        if meth == 'unitary_inverse' and ty in ('Fq2', 'Fq4'):
            return [(st, A.conj(ty, x))]
        if meth == 'new' and ty in ('Fq2', 'Fq4', 'Fq12'):
            return [(st, tower.mk(ty, a))]
        if meth == 'scale' and ty in ('Fq2', 'Fq4', 'Fq12'):
            return [(st, A.mul(ty, x, a[1]))]     # multiplication by the embedded base element
        if meth == 'scale_fq' and ty == 'Fq4':
            return [(st, A.mul(ty, x, a[1]))]
        if meth == 'div2' and ty in ('Fq', 'Fq2', 'Base'):
            half = (st.facts.char + 1) // 2
            return [(st, A.scalar(T, x, half))]
        if meth in ('mul_assign', 'add_assign', 'sub_assign'):
            tgt = rawargs[0]
            if not (isinstance(tgt, tuple) and tgt[0] == 'mref'):
                raise Unsupported("assign operator without a mutable reference")
            cur = interp.deref(st, tgt)
            op = {'mul_assign': A.mul, 'add_assign': A.add, 'sub_assign': A.sub}[meth]
            new = op(T, cur, a[1])
            base = st.mem[(tgt[1], tgt[2])]
            st.mem[(tgt[1], tgt[2])] = interp.set_field(base, list(tgt[3]), new)
            return [(st, S('()', []))]
        if meth == 'frobenius_map' and ty == 'Fq12' and isinstance(x, Poly):
            # Fq12-atomic level: x -> x^(q^k) acts on a polynomial in the symbols by multiplying exponents (ring hom fixing F_q)
            k = a[1]
            if not (isinstance(k, tuple) and k[0] == 'int' and k[1] in (1, 2, 3, 6)):
                raise Unsupported("frobenius_map power")
            qk = st.facts.char ** k[1]
            return [(st, Poly({tuple((v, e * qk) for v, e in m): c for m, c in x.t.items()}))]
        if meth == 'frobenius_map' and ty in ('Fq4', 'Fq12'):
            k = a[1]
            if not (isinstance(k, tuple) and k[0] == 'int'):
                raise Unsupported("frobenius_map with a symbolic power")
            return [(st, frobenius_spec(A, ty, x, k[1], st.facts.char))]
        if meth == 'pow_u128' and ty == 'Fq12':
            k = a[1]
            if not (isinstance(k, tuple) and k[0] == 'int'):
                raise Unsupported("pow with a symbolic exponent")
            if not isinstance(x, Poly):
                raise Unsupported("Fq12::pow contract is only used at the Fq12-atomic level")
            return [(st, x ** k[1])]
        if meth == 'new' and ty in ('Fq', 'Fr') and len(a) == 1 and isinstance(a[0], tuple) and a[0][0] == 'u256':
            # Fq::new(c) for a source constant c: Some(c) iff c < q   (contract of Fq::new, value view)
            if a[0][1] < st.facts.char:
                return [(st, Some(C(a[0][1])))]
            return [(st, NONE)]
        if meth == 'is_zero':
            out = []
            for s, z in self.fork_all_zero(st, self.leaves(x), 'is_zero'):
                out.append((s, B(z)))
            return out
        if meth == 'is_one':
            d = A.eq_components(T, x, self.const_of(ty, 1, like=x))
            return [(s, B(z)) for s, z in self.fork_all_zero(st, d, 'is_one')]
        if meth in ('eq', 'ne'):
            d = A.eq_components(T, a[0], a[1])
            out = []
            for s, z in self.fork_all_zero(st, d, 'eq'):
                out.append((s, B(z if meth == 'eq' else not z)))
            return out
        if meth == 'inverse':
            return self.inverse_contract(st, ty, x)
        if meth == 'sum_of_products' and ty == 'Fq':
            # contract of Fq::sum_of_products<T> (discharged by the limb-level engine): sum of a_i * b_i
            xs, ys = a[0], a[1]
            if not (is_struct(xs) and is_struct(ys) and len(xs[2]) == len(ys[2])):
                raise Unsupported("sum_of_products argument shape")
            acc = Poly()
            for p, q in zip(xs[2], ys[2]):
                acc = acc + unref(interp, st, p) * unref(interp, st, q)
            return [(st, acc)]
        if meth == 'mul_1' and ty == 'Fq4':
            # requires b.c0 == 0 ; ensures result == self * b
            b = a[1]
            for p in SYM.leaves(SYM.comps('Fq4', b)[0]):
                if not st.facts.is_zero(p):
                    raise Violation("precondition of Fq4::mul_1 (b.c0 == 0) not established at call site", st)
            return [(st, A.mul('Fq4', a[0], b))]
        if meth == 'mul_015' and ty == 'Fq12':
            b = a[1]
            cs = SYM.comps('Fq12', b)
            pre = SYM.leaves(cs[1]) + SYM.leaves(SYM.comps('Fq4', cs[2])[0])
            for p in pre:
                if not st.facts.is_zero(p):
                    raise Violation("precondition of Fq12::mul_015 (b.c1 == 0, b.c2.c0 == 0) not established at call site", st)
            return [(st, A.mul('Fq12', a[0], b))]
        if meth in ('real', 'imaginary') and ty == 'Fq2':
            return [(st, ('ref', A.comps('Fq2', x)[0 if meth == 'real' else 1]))]
        if meth == 'i' and ty == 'Fq2':
            return [(st, tower.mk('Fq2', [Poly(), C(1)]))]
        return None

    def const_of(self, ty, k, like=None):
        if ty in self.atoms or ty in ('Fq', 'Base', 'Fr'):
            return C(k)
        v = tower.fresh(ty, '_', self.atoms)
        return SYM.one(ty, v) if k == 1 else SYM.zero(ty, v)

    def inverse_contract(self, st, ty, x):
        """inverse(x) = None iff x = 0 ; Some(y) with x*y = 1 otherwise.
        For a structured x the inverse is  conj-product / norm  with a single base-ring inverse (spec formula)."""
        if isinstance(x, Poly) and self.extra.get('__monomial__') and len(x.t) == 1 and list(x.t.values())[0] == 1:
            # exponent domain: (X^e)^-1 = X^-e for the non-zero symbol X
            (m, c), = x.t.items()
            return [(st, Some(Poly({tuple((v, -e) for v, e in m): 1})))]
        if isinstance(x, Poly):
            out = []
            for s, z in self.fork_zero(st, x, 'inv_arg'):
                if z:
                    out.append((s, NONE))
                else:
                    nu = s.facts.new_nu(x)
                    out.append((s, Some(nu)))
            return out
        # structured: spec inverse
        num, den = spec_inverse_fraction(ty, x)
        out = []
        leaves_zero = self.fork_all_zero(st, self.leaves(x), 'inv_arg')
        for s, z in leaves_zero:
            if z:
                out.append((s, NONE))
            else:
                # x != 0 in a field => its norm to the atomic level is non-zero (A2)
                try:
                    s.facts.assume_nonzero(den)
                except Infeasible:
                    continue
                nu = s.facts.new_nu(den)
                out.append((s, Some(SYM.mul(ty, num, nu))))
        return out


def spec_inverse_fraction(ty, x):
    """x^{-1} = num / den with den a leaf (norm down to the atomic level); spec-side formula"""
    A = SYM
    if not is_struct(x):
        return C(1), x
    below = tower.BELOW[ty]
    cs = x[2]
    if tower.ARITY[ty] == 2:
        # (c0 + c1 t)^{-1} = (c0 - c1 t) / (c0^2 - c1^2 t^2)
        n = A.sub(below, A.mul(below, cs[0], cs[0]), A.nonresidue_times(below, A.mul(below, cs[1], cs[1])))
        num_n, den = spec_inverse_fraction(below, n)
        conj = tower.mk(ty, [cs[0], A.neg(below, cs[1])])
        return A.mul(ty, conj, num_n), den
    # cubic: adjugate formula for c0 + c1 w + c2 w^2, w^3 = xi
    NR = lambda p: A.nonresidue_times(below, p)
    M = lambda p, q: A.mul(below, p, q)
    t0 = A.sub(below, M(cs[0], cs[0]), NR(M(cs[1], cs[2])))
    t1 = A.sub(below, NR(M(cs[2], cs[2])), M(cs[0], cs[1]))
    t2 = A.sub(below, M(cs[1], cs[1]), M(cs[0], cs[2]))
    n = A.add(below, M(cs[0], t0), NR(A.add(below, M(cs[2], t1), M(cs[1], t2))))
    num_n, den = spec_inverse_fraction(below, n)
    adj = tower.mk(ty, [t0, t1, t2])
    return A.mul(ty, adj, num_n), den


# --------------------------------------------------------------------------
# Frobenius: x -> x^(q^k) written from the definition of the tower (A2), constants by exact computation

_frob_consts = {}

def _u_pow(e, q):
    """u^e in Fq2 = F_q[u]/(u^2+2) as (c0, c1) integers"""
    key = (e, q)
    if key in _frob_consts:
        return _frob_consts[key]
    import tower as tw
    num = tw.Algebra(tw.ModLeaf(q))
    r = tw.pow_num(num, 'Fq2', tw.mk('Fq2', [0, 1]), e)
    _frob_consts[key] = (r[2][0], r[2][1])
    return _frob_consts[key]

def _const2(A, c):
    z = A.L.zero()
    def lift(n):
        if isinstance(z, Poly):
            return C(n)
        return n
    return tower.mk('Fq2', [lift(c[0]), lift(c[1])])

def frob_fq2(A, x, k):
    return A.conj('Fq2', x) if k % 2 else x

def frob_fq4_plain(A, x, k, q):
    """(c0 + c1 v)^(q^k) = c0^(q^k) + c1^(q^k) * v^(q^k),  v^(q^k) = v * u^((q^k-1)/2)"""
    c0, c1 = A.comps('Fq4', x)
    delta = _const2(A, _u_pow((q ** k - 1) // 2, q))
    return tower.mk('Fq4', [frob_fq2(A, c0, k), A.mul('Fq2', frob_fq2(A, c1, k), delta)])

def frobenius_spec(A, ty, x, code, q):
    """Fq12: code = k.  Fq4: code = 10*k + j computes the w^j-coefficient map  c -> c^(q^k) * w^(j(q^k-1))  (w^6 = u)"""
    if ty == 'Fq12':
        k = code
        if k not in (1, 2, 3, 6):
            raise Unsupported("frobenius power %d" % k)
        cs = A.comps('Fq12', x)
        return tower.mk('Fq12', [frobenius_spec(A, 'Fq4', cs[j], 10 * k + j, q) for j in range(3)])
    k, j = divmod(code, 10)
    if k not in (1, 2, 3, 6) or j not in (0, 1, 2):
        raise Unsupported("frobenius code %d" % code)
    assert (q ** k - 1) % 6 == 0
    gamma = _const2(A, _u_pow(j * (q ** k - 1) // 6, q))
    y = frob_fq4_plain(A, x, k, q)
    c0, c1 = y[2]
    return tower.mk('Fq4', [A.mul('Fq2', c0, gamma), A.mul('Fq2', c1, gamma)])


def canon(interp, st, v):
    """value with references resolved (for uninterpreted-function terms)"""
    v = unref(interp, st, v)
    if is_struct(v):
        return ('struct', v[1], [canon(interp, st, x) for x in v[2]])
    if isinstance(v, tuple) and v and v[0] == 'enum':
        return ('enum', v[1], [canon(interp, st, x) for x in v[2]])
    return v

def same_value(st, a, b):
    """semantic equality of two interpreter values under the path facts"""
    if isinstance(a, Poly) or isinstance(b, Poly):
        if not (isinstance(a, Poly) and isinstance(b, Poly)):
            return False
        return st.facts.is_zero(a - b)
    if isinstance(a, tuple) and isinstance(b, tuple):
        if not a or not b or a[0] != b[0]:
            # expected-side pattern for uninterpreted terms
            if a and b and {a[0], b[0]} == {'uf', 'ufx'}:
                x, y = (a, b) if a[0] == 'ufx' else (b, a)
                return bool(re.search(x[1], y[1])) and len(x[2]) == len(y[2]) and all(same_value(st, p, q) for p, q in zip(x[2], y[2]))
            return False
        k = a[0]
        if k in ('struct', 'enum'):
            return a[1] == b[1] and len(a[2]) == len(b[2]) and all(same_value(st, p, q) for p, q in zip(a[2], b[2]))
        if k == 'uf':
            return a[1] == b[1] and len(a[2]) == len(b[2]) and all(same_value(st, p, q) for p, q in zip(a[2], b[2]))
        if k in ('ref',):
            return same_value(st, a[1], b[1])
        return a == b
    return a == b
