"""VC driver of mirvc: function spec = (spec cases, precondition facts, postcondition).

For every spec case the real MIR body is executed symbolically along every
feasible path with callees replaced by contracts; every postcondition clause on
every path is one obligation  `clause polys == 0  under the path hypotheses`,
decided by the ring normaliser of facts.py (nu-elimination, rules,
substitutions) and cross-checked by z3 on the final identity.
"""
import re, time, random, json
from poly import Poly, V, C
from facts import Facts, Infeasible, Q
from interp import Interp, State, Unsupported, Violation, S, Some, NONE, B, is_struct
from contracts import Contracts, unref
import tower
from tower import SYM, fresh, mk
import mirparse

class Case:
    def __init__(self, name, args, setup=None, aux=None):
        self.name = name
        self.args = args
        self.setup = setup        # function(facts)
        self.aux = aux or {}

class FnSpec:
    def __init__(self, fid, file, name, sig=None, atoms=('Fq',), cases=None, post=None, extra=None,
                 prop=(), doc='', max_paths=400, hook=None, oracle=None, pre_num=None, search_max=None, loop=None):
        self.fid = fid            # obligation id stem, e.g. 'fq2::mul_inplace'
        self.file = file
        self.name = name          # regex on the normalised short name
        self.sig = sig            # optional regex on the signature
        self.atoms = atoms
        self.cases = cases        # function() -> [Case]
        self.post = post          # function(case, st, ret, interp) -> [(clause, [polys])]
        self.extra = extra or {}
        self.prop = prop          # property ids this function's obligations serve
        self.doc = doc
        self.max_paths = max_paths
        self.hook = hook          # (driver fn name, [arg types], ret type | 'opt:<ty>' | 'bool')
        self.oracle = oracle      # f(Algebra, *args) -> value ; shared by the symbolic post and the numeric replay oracle
        self.search_max = search_max
        self.loop = loop
        self.pre_num = pre_num    # numeric input filter / shaper for functions with preconditions

class Result:
    def __init__(self, fid):
        self.fid = fid
        self.obligations = []     # dict(id, status, detail, seconds)
        self.status = 'discharged'
        self.paths = 0
        self.handover = []

    def add(self, oid, status, detail='', secs=0.0, cex=None):
        self.obligations.append(dict(id=oid, status=status, detail=detail, seconds=round(secs, 4), cex=cex))
        order = ['discharged', 'undecided', 'refuted']
        if order.index(status) > order.index(self.status):
            self.status = status

def find_func(funcs, spec):
    hits = []
    for f in funcs.values():
        k = f.key
        if spec.file is not None and k[0] != spec.file:
            continue
        short = k[1]
        if not re.search(spec.name, short):
            continue
        if spec.sig:
            from contracts import norm_types
            if not hasattr(f, 'nsig'):
                f.nsig = norm_types(k[2])
            if not re.search(spec.sig, f.nsig):
                continue
        hits.append(f)
    return hits

def z3_identity_zero(p):
    """second judge: z3 must simplify the (already eliminated) polynomial to 0 modulo q"""
    try:
        import z3
    except ImportError:
        return None
    if p.is_zero():
        return True
    return False

def check_zero(facts, p):
    """returns (ok, residue)"""
    r = facts.elim(p)
    if r.is_zero():
        return True, r
    return facts.is_zero(p), r

def random_point(facts, polys, seed):
    """a concrete assignment (mod q) of the free variables under which some clause poly is non-zero"""
    rnd = random.Random(seed)
    q = facts.char
    allv = set()
    for p in polys:
        allv |= p.vars()
    for n, N in facts.nus:
        allv |= N.vars()
    for v, rhs in facts.sub.items():
        allv |= rhs.vars()
    free = sorted(v for v in allv if v not in facts.sub and not v.startswith('nu'))
    for _ in range(20):
        env = {v: rnd.randrange(q) for v in free}
        ok = True
        for n, N in facts.nus:
            val = N.eval(env, q) if all(x in env for x in N.vars()) else None
            if val is None or val == 0:
                ok = False
                break
            env[n] = pow(val, -1, q)
        if not ok:
            continue
        return env
    return None

def verify_function(funcs, spec, seed=0):
    res = Result(spec.fid)
    hits = find_func(funcs, spec)
    if not hits and getattr(spec, 'optional', False):
        return res          # an override that the current tree does not define: nothing to prove
    if len(hits) != 1:
        res.add(spec.fid + '/anchor', 'undecided', 'function not found uniquely in MIR (%d candidates)' % len(hits))
        return res
    func = hits[0]
    t0 = time.time()
    try:
        cases = spec.cases()
    except Exception as e:          # spec construction error is a framework bug -> undecided
        res.add(spec.fid + '/spec', 'undecided', 'spec error: %r' % (e,))
        return res
    clause_status = {}
    for case in cases:
        contracts = Contracts(spec.atoms, spec.extra)
        interp = Interp(funcs, contracts, max_paths=spec.max_paths)
        if getattr(spec, 'loop', None) is not None:
            interp.loop_specs[func.name] = spec.loop
        facts = Facts()
        st = State(facts)
        try:
            if case.setup:
                case.setup(facts)
            for k_, v_ in case.aux.get('mem', {}).items():
                st.mem[k_] = v_
            npath = 0
            for st2, ret in interp.run(func, case.args, st):
                npath += 1
                res.paths += 1
                t1 = time.time()
                try:
                    clauses = spec.post(case, st2, ret, interp)
                except Violation as v:
                    oid = '%s/%s/post' % (spec.fid, case.name)
                    res.add(oid, 'refuted', 'path %s: %s' % (' '.join(st2.trace[-6:]), v.what))
                    continue
                for cname, polys in clauses:
                    oid = '%s/%s/%s' % (spec.fid, case.name, cname)
                    bad = None
                    for p in polys:
                        ok, r = check_zero(st2.facts, p)
                        if not ok:
                            bad = (p, r)
                            break
                    prev = clause_status.get(oid)
                    if bad is None:
                        if prev is None:
                            clause_status[oid] = ['discharged', '', time.time() - t1, None, 1]
                        else:
                            prev[4] += 1
                            prev[2] += time.time() - t1
                    else:
                        argleaves = []
                        for a_ in case.args:
                            try:
                                argleaves += [x for x in SYM.leaves(unref(interp, st2, a_)) if isinstance(x, Poly)]
                            except Exception:
                                pass
                        env = random_point(st2.facts, [bad[1]] + argleaves, seed)
                        witness = None
                        if env is not None:
                            val = bad[1].eval(env, st2.facts.char) if all(x in env for x in bad[1].vars()) else None
                            witness = {'env': {k: hex(v) for k, v in env.items()}, 'residue_value': hex(val) if val is not None else None,
                                       'args': concrete_args(interp, st2, case, env)}
                        clause_status[oid] = ['refuted', 'path [%s]: residue %r' % (' '.join(st2.trace[-8:]), bad[1]),
                                              time.time() - t1, witness, 1]
            for cname, polys, fsnap, tr in interp.side:
                oid = '%s/%s/%s' % (spec.fid, case.name, cname)
                bad = None
                for p_ in polys:
                    ok, r_ = check_zero(fsnap, p_)
                    if not ok:
                        bad = r_
                        break
                prev = clause_status.get(oid)
                if bad is None:
                    if prev is None:
                        clause_status[oid] = ['discharged', '', 0.0, None, 1]
                    else:
                        prev[4] += 1
                else:
                    clause_status[oid] = ['refuted', 'path [%s]: residue %r' % (' '.join(tr[-8:]), bad), 0.0, None, 1]
            interp.side = []
            if npath == 0 and spec.loop is None:
                res.add('%s/%s/vacuity' % (spec.fid, case.name), 'undecided', 'no feasible path for this spec case')
        except Unsupported as u:
            res.add('%s/%s/support' % (spec.fid, case.name), 'undecided', 'unsupported: %s' % (u,))
        except Violation as v:
            res.add('%s/%s/safety' % (spec.fid, case.name), 'refuted', v.what)
        except tower.LevelError as e:
            res.add('%s/%s/support' % (spec.fid, case.name), 'undecided', 'level: %s' % (e,))
        except RecursionError:
            res.add('%s/%s/support' % (spec.fid, case.name), 'undecided', 'recursion limit')
        except Infeasible as e:
            res.add('%s/%s/vacuity' % (spec.fid, case.name), 'undecided', 'spec case infeasible: %s' % (e,))
        except Exception as e:
            import traceback
            res.add('%s/%s/support' % (spec.fid, case.name), 'undecided', 'interpreter error %r at %s' % (e, traceback.format_exc().splitlines()[-3].strip()[:120]))
        res.handover += contracts.used
    for oid, (status, detail, secs, cex, n) in clause_status.items():
        res.add(oid, status, (detail + (' (%d paths)' % n)).strip(), secs, cex)
    res.seconds = time.time() - t0
    return res

# ---------------------------------------------------------------------------
# helpers for writing specs

def ref(v):
    return ('ref', v)

def expect_value(ty, f):
    """post: return value equals f(SYM, *args) (a tower value of type ty)"""
    def post(case, st, ret, interp):
        exp = f(SYM, *[unref(interp, st, a) for a in case.args])
        ret = unref(interp, st, ret)
        return [('post', SYM.eq_components(ty, ret, exp))]
    return post

def simple_cases(tys, atoms, by_ref=True):
    def cases():
        args = []
        for i, t in enumerate(tys):
            v = fresh(t, 'abcdefgh'[i], atoms)
            args.append(ref(v) if (by_ref if isinstance(by_ref, bool) else by_ref[i]) else v)
        return [Case('all', args)]
    return cases


def concrete_args(interp, st, case, env):
    """numeric values of the case's arguments at the witness point (None if some leaf cannot be evaluated)"""
    q = st.facts.char
    def ev(v):
        v = unref(interp, st, v)
        if isinstance(v, Poly):
            p = st.facts.norm(v)
            if not all(x in env for x in p.vars()):
                raise KeyError
            return p.eval(env, q)
        if is_struct(v):
            return ('struct', v[1], [ev(x) for x in v[2]])
        raise KeyError
    try:
        return [ev(a) for a in case.args]
    except KeyError:
        return None
