"""Loops above the limb layer, verified with inductive invariants over an abstract cyclic structure:
   * Mul<Fr> for G<P> (double-and-add):      pt(res) = [prefix] pt(self)  in the abelian group of A3
   * FieldElement::pow (square-and-multiply): res = self^prefix          in any commutative monoid
A value PW(n) stands for the n-fold combination of the generator `self` (n*P resp. self^n); the contracts of
zero/one, double/squared and +=/*= on PW values are the group/monoid laws (A3 resp. ring axioms).  The bit
iterator contract carries the ghost prefix: it yields the binary digits of U (most significant first, no leading
zeros), so Some(b) extends the prefix to 2*prefix + b and None means prefix = U.  [hand-over: the iterator's own
contract is the limb-level obligation u256::bits_without_leading_zeros.]"""
import re
from vc import FnSpec, Case, ref
from poly import Poly, V, C
from interp import S, Some, NONE, B, is_struct, Violation, Unsupported, LoopSpec
from contracts import unref

SPECS = []
U_ = V('U_')

def PW(n):
    return S('PW', [n])

def pw(v):
    if not (is_struct(v) and v[1] == 'PW'):
        raise Unsupported("value outside the generated cyclic structure")
    return v[2][0]

def h_zero(cx, interp, func, st, c, args):
    return [(st, PW(Poly()))]

def h_double(cx, interp, func, st, c, args):
    return [(st, PW(pw(unref(interp, st, args[0])) * 2))]

def h_combine_assign(cx, interp, func, st, c, args):
    tgt = args[0]
    if not (isinstance(tgt, tuple) and tgt[0] == 'mref'):
        raise Unsupported("assign operator without a mutable reference")
    cur = interp.deref(st, tgt)
    new = PW(pw(cur) + pw(unref(interp, st, args[1])))
    base = st.mem[(tgt[1], tgt[2])]
    st.mem[(tgt[1], tgt[2])] = interp.set_field(base, list(tgt[3]), new)
    return [(st, S('()', []))]

def h_to_u256(cx, interp, func, st, c, args):
    # contract of U256::from(Fr) / Into<U256>: the canonical value U of the scalar / exponent
    return [(st, ('u256sym', U_))]

def h_bits(cx, interp, func, st, c, args):
    u = unref(interp, st, args[0])
    if not (isinstance(u, tuple) and u[0] == 'u256sym'):
        raise Unsupported("bit iterator over an unknown integer")
    return [(st, ('bititer', u[1], Poly()))]

def h_into_iter(cx, interp, func, st, c, args):
    return [(st, args[0])]

def h_next(cx, interp, func, st, c, args):
    tgt = args[0]
    it = interp.deref(st, tgt)
    if not (isinstance(it, tuple) and it[0] == 'bititer'):
        raise Unsupported("next() on an unknown iterator")
    out = []
    # exhausted: the consumed prefix is the whole number
    try:
        s0 = st.fork()
        alts = s0.facts.assume_zero(it[2] - it[1])
        for k, fa in enumerate(alts):
            s = s0 if k == 0 else s0.fork()
            s.facts = fa
            s.trace.append('iter-end')
            out.append((s, NONE))
    except Exception as e:
        from facts import Infeasible
        if not isinstance(e, Infeasible):
            raise
    for b in (0, 1):
        s = st.fork()
        new = ('bititer', it[1], it[2] * 2 + b)
        base = s.mem[(tgt[1], tgt[2])]
        s.mem[(tgt[1], tgt[2])] = interp.set_field(base, list(tgt[3]), new) if tgt[3] else new
        s.trace.append('bit%d' % b)
        out.append((s, Some(B(bool(b)))))
    return out

COMMON = {
    r'^<U256 as From<Fr>>::from$': h_to_u256,
    r'^<I as Into<U256>>::into$': h_to_u256,
    r'^U256::bits_without_leading_zeros$': h_bits,
    r'as IntoIterator>::into_iter$': h_into_iter,
    r'^<SkipWhile<BitIterator.*as Iterator>::next$': h_next,
}

def loop_spec(res_name, iter_name):
    def inv(interp, st, fr, func):
        r = st.mem[(fr, func.debug[res_name])]
        it = st.mem[(fr, func.debug[iter_name])]
        if not (isinstance(it, tuple) and it[0] == 'bititer'):
            raise Unsupported("loop-carried iterator lost")
        return [('res_is_prefix_multiple', [pw(r) - it[2]])]
    def havoc(interp, st, fr, func):
        st.facts.fresh += 1
        p = V('pre%d' % st.facts.fresh)
        st.mem[(fr, func.debug[res_name])] = PW(p)
        st.mem[(fr, func.debug[iter_name])] = ('bititer', U_, p)
    return LoopSpec(inv, havoc)

def post(case, st, ret, interp):
    return [('result_is_U_fold', [pw(unref(interp, st, ret)) - U_])]

# scalar multiplication
EXG = dict(COMMON)
EXG.update({r'^<G<P> as Zero>::zero$': h_zero, r'^<G<P> as GroupElement>::double$': h_double, r'^<G<P> as AddAssign>::add_assign$': h_combine_assign})
SPECS.append(FnSpec('groups::mul', 'src/groups.rs', r'<impl>::mul$', r'^\(G<P>, Fr\) -> G<P>$', ('Base', 'Fr'),
                    lambda: [Case('all', [PW(C(1)), V('k')])], post, extra=EXG, prop=('C05', 'C16'), loop=loop_spec('res', 'iter')))
# exponentiation (generic default method of FieldElement: serves Fr, Fq, Fq12/Gt pow)
EXP = dict(COMMON)
EXP.update({r'^<Self as One>::one$': h_zero, r'^<Self as FieldElement>::squared$': h_double, r'^<Self as MulAssign<&Self>>::mul_assign$': h_combine_assign})
SPECS.append(FnSpec('fields::FieldElement::pow', None, r'^FieldElement::pow$', None, ('Self',),
                    lambda: [Case('all', [ref(PW(C(1))), V('e')])], post, extra=EXP, prop=('C06', 'C11', 'C14'), loop=loop_spec('res', 'iter')))
