//! Demonstrations of the six genuine defects D1..D6 (DESIGN.md §6) against the real crate.
//! Each line prints `Dk ok` when the property holds on the linked tree, `Dk FAIL ...` otherwise.
//! Exit status = number of failing demonstrations.
use sm9_core::*;
use std::panic;

fn q_bytes() -> [u8; 32] {
    hex!("B640000002A3A6F1D603AB4FF58EC74521F2934B1A7AEEDBE56F9B27E351457D")
}
fn add_be(a: &[u8; 32], b: &[u8; 32]) -> Option<[u8; 32]> {
    let mut r = [0u8; 32];
    let mut c = 0u16;
    for i in (0..32).rev() {
        let s = a[i] as u16 + b[i] as u16 + c;
        r[i] = s as u8;
        c = s >> 8;
    }
    if c == 0 { Some(r) } else { None }
}

fn main() {
    let mut fails = 0;
    // D1: Fr::set_bit must act on the canonical value
    {
        let mut z = Fr::zero();
        z.set_bit(0, true);
        let mut o = Fr::one();
        o.set_bit(253, true); o.set_bit(254, true); o.set_bit(255, true);
        // expected: (1 + 2^253+2^254+2^255) mod r
        let mut e = [0u8; 32]; e[31] = 1; e[0] = 0xE0;
        let exp = Fr::from_slice(&e).unwrap();
        if z == Fr::one() && o == exp && o.to_slice() == exp.to_slice() { println!("D1 ok"); }
        else { println!("D1 FAIL set_bit(0) on zero == one: {}; high bits: {:02x?}", z == Fr::one(), &o.to_slice()[..4]); fails += 1; }
    }
    // D2: G1 decoders must reject coordinates >= q
    {
        let mut found = false; let mut bad = false;
        for k in 1u64..2000 {
            let mut kb = [0u8; 32]; kb[24..].copy_from_slice(&k.to_be_bytes());
            let p = G1::one() * Fr::from_slice(&kb).unwrap();
            let s = p.to_slice();
            let x: [u8; 32] = s[..32].try_into().unwrap();
            if let Some(xq) = add_be(&x, &q_bytes()) {
                found = true;
                let mut enc = [0u8; 64]; enc[..32].copy_from_slice(&xq); enc[32..].copy_from_slice(&s[32..]);
                if G1::from_slice(&enc).is_ok() { bad = true; }
                let mut e65 = [4u8; 65]; e65[1..].copy_from_slice(&enc);
                if G1::from_uncompressed(&e65).is_ok() { bad = true; }
                let c = p.to_compressed(); let mut c2 = [0u8; 33]; c2[0] = c[0]; c2[1..].copy_from_slice(&xq);
                if G1::from_compressed(&c2).is_ok() { bad = true; }
                break;
            }
        }
        if found && !bad { println!("D2 ok"); } else { println!("D2 FAIL found={} accepted_x_plus_q={}", found, bad); fails += 1; }
    }
    // D3: G2 decoders must not panic on coordinates >= q
    {
        let r = panic::catch_unwind(|| G2::from_slice(&[0xffu8; 128]).is_err());
        let r2 = panic::catch_unwind(|| { let mut b = [0xffu8; 65]; b[0] = 2; G2::from_compressed(&b).is_err() });
        let r3 = panic::catch_unwind(|| Fq2::from_slice(&[0xffu8; 64]).is_none());
        if matches!(r, Ok(true)) && matches!(r2, Ok(true)) && matches!(r3, Ok(true)) { println!("D3 ok"); }
        else { println!("D3 FAIL {:?} {:?} {:?}", r.is_ok(), r2.is_ok(), r3.is_ok()); fails += 1; }
    }
    // D4: compressed prefix must be 2 or 3 in every profile
    {
        let mut c = G1::one().to_compressed(); c[0] = 6;
        let r = panic::catch_unwind(move || G1::from_compressed(&c).is_err());
        let mut c2 = G2::one().to_compressed(); c2[0] = 0x13;
        let r2 = panic::catch_unwind(move || G2::from_compressed(&c2).is_err());
        if matches!(r, Ok(true)) && matches!(r2, Ok(true)) { println!("D4 ok"); }
        else { println!("D4 FAIL g1={:?} g2={:?}", r, r2); fails += 1; }
    }
    // D5: every entry point is trivial on every representation of the identity
    {
        let p = G1::one(); let q = G2::one();
        let pz = p - p; let qz = q - q;
        let one = Gt::one();
        let a = fast_pairing(pz, q) == one;
        let b = fast_pairing(p, qz) == one;
        let c = G2Prepared::from(q).pairing(&pz) == one;
        let d = G2Prepared::from(qz).pairing(&p) == one;
        let e = pairing(pz, q) == one && pairing(p, qz) == one;
        let f = fast_pairing(G1::zero(), q) == one && fast_pairing(p, G2::zero()) == one;
        if a && b && c && d && e && f { println!("D5 ok"); } else { println!("D5 FAIL {:?}", (a, b, c, d, e, f)); fails += 1; }
    }
    // D6: every element of Fq is a square in Fq2
    {
        let mut bad = 0;
        for k in 1u8..=200 {
            for neg in [false, true] {
                let mut kb = [0u8; 32]; kb[31] = k;
                let mut a = Fq::from_slice(&kb).unwrap();
                if neg { a = -a; }
                let x = Fq2::new(a, Fq::zero());
                match x.sqrt() { Some(s) if s * s == x => {}, _ => bad += 1 }
            }
        }
        if bad == 0 { println!("D6 ok"); } else { println!("D6 FAIL {} of 400 real elements have no Fq2 root", bad); fails += 1; }
    }
    std::process::exit(fails);
}
