"""Contract-directed search on the real limb / prime-field / conversion code through the hook driver.
Oracle: exact integer arithmetic (Python).  Input classes are those named by the property quantifiers
(C06, C07, C12, C13, C14): limb-boundary Montgomery representations, p-1, (p+-1)/2, 2^256-p, sums hitting p
or 2^256, every slice length 0..70, every bit index 0..300, special dividends of the long division, ...
Never counted as proof; a hit is a genuine failing input of the real code."""
import os, sys, random, itertools
HERE = os.path.dirname(os.path.abspath(__file__))
sys.path.insert(0, os.path.join(HERE, '..', 'spec'))
sys.path.insert(0, os.path.join(HERE, '..', 'mirvc'))
import sm9spec as S
from tower import mk

Q, R, RR = S.Q, S.R_ORDER, S.RR
B64 = 1 << 64

def be(n, l=32):
    return int(n).to_bytes(l, 'big')

def limbs_pool(p, rnd, nrand):
    """stored representations (< p) from the limb-boundary classes of C06"""
    pl = [(p >> (64 * i)) & (B64 - 1) for i in range(4)]
    vals = set()
    for n in (0, 1, 2, p - 1, p - 2, (p + 1) // 2, (p - 1) // 2, RR - p, (RR - p) - 1, (RR - p) + 1, RR % p, (RR * RR) % p,
              pow(RR, -1, p), p - pow(RR, -1, p), B64 - 1, B64, B64 + 1, (1 << 128) - 1, 1 << 128, (1 << 192) - 1, 1 << 192, 1 << 255,
              (1 << 255) - 1, p >> 1, p - B64, p - (B64 - 1)):
        if 0 <= n < p:
            vals.add(n)
    lim = [0, 1, 1 << 63, B64 - 1]
    for i in range(4):
        cands = lim + [pl[i], (pl[i] - 1) % B64, (pl[i] + 1) % B64]
        for _ in range(40):
            ls = [rnd.choice(lim + [pl[j], (pl[j] - 1) % B64, (pl[j] + 1) % B64]) for j in range(4)]
            n = sum(l << (64 * j) for j, l in enumerate(ls))
            if n < p:
                vals.add(n)
    # values just below p with extreme low limbs
    for d in (1, 2, 3, B64 - 1, B64, B64 + 1, (1 << 128), (1 << 192)):
        if p - d > 0:
            vals.add(p - d)
    out = sorted(vals)
    out += [rnd.randrange(p) for _ in range(nrand)]
    return out

class Rec:
    def __init__(self):
        self.stats = {}
        self.viols = []
    def count(self, k, n=1):
        self.stats[k] = self.stats.get(k, 0) + n
    def bad(self, fid, fn, args, expected, observed, failure='wrong-result'):
        if len(self.viols) < 40 and not any(v['fid'] == fid and v['failure'] == failure for v in self.viols):
            self.viols.append(dict(fid=fid, hook=fn, args=[a.hex() for a in args], expected=expected, observed=observed, failure=failure))

def run_batch(drv, rec, reqs):
    """reqs: list of (fid, fn, args, checker(out_parts) -> None | (expected, observed))"""
    res = drv.batch([(fn, args) for _, fn, args, _ in reqs])
    for (fid, fn, args, chk), r in zip(reqs, res):
        rec.count(fid)
        if r[0] != 'ok':
            e = chk(None)
            rec.bad(fid, fn, args, e[0] if e else 'a result', ' '.join(r), 'panic-or-unknown')
            continue
        e = chk(r[1])
        if e:
            rec.bad(fid, fn, args, e[0], e[1])

def eqchk(expected_bytes_list):
    def chk(out):
        if out is None:
            return (' '.join(x.hex() for x in expected_bytes_list), 'panic')
        if [bytes(x) for x in out[:len(expected_bytes_list)]] != [bytes(x) for x in expected_bytes_list]:
            return (' '.join(x.hex() for x in expected_bytes_list), ' '.join(x.hex() for x in out))
        return None
    return chk

def search(drv, seed, tier='quick'):
    rnd = random.Random(seed * 104729 + 5)
    rec = Rec()
    nr = 30 if tier == 'quick' else 400
    for fname, p, inv_name in (('fq', Q, 'FQ'), ('fr', R, 'FR')):
        pool = limbs_pool(p, rnd, nr)
        small = pool[:40] if tier == 'quick' else pool[:120]
        pairs = [(a, b) for a in small[:24] for b in small[:24]]
        # pairs whose stored sum hits p or 2^256 exactly / +-1
        for a in small:
            for t in (p, p - 1, p + 1, RR, RR - 1, RR + 1):
                b = t - a
                if 0 <= b < p:
                    pairs.append((a, b))
        pairs += [(rnd.choice(pool), rnd.choice(pool)) for _ in range(nr * 6)]
        Rinv = pow(RR, -1, p)
        minv = (-pow(p, -1, B64)) % B64
        reqs = []
        P_ = be(p)
        for a, b in pairs:
            A_, B_ = be(a), be(b)
            # U256 level (explicit modulus): stored-value arithmetic
            reqs.append(('u256::add', 'u256::add', [A_, B_, P_], eqchk([be((a + b) % p)])))
            reqs.append(('u256::sub', 'u256::sub', [A_, B_, P_], eqchk([be((a - b) % p)])))
            reqs.append(('u256::mul', 'u256::mul', [A_, B_, P_, be(minv, 8)], eqchk([be(a * b * Rinv % p)])))
            # field level: same on the Montgomery view, every operator form
            reqs.append((fname + '::add_inplace', fname + '::add_inplace', [A_, B_], eqchk([be((a + b) % p)])))
            reqs.append((fname + '::sub_inplace', fname + '::sub_inplace', [A_, B_], eqchk([be((a - b) % p)])))
            reqs.append((fname + '::mul_inplace', fname + '::mul_inplace', [A_, B_], eqchk([be(a * b * Rinv % p)])))
            reqs.append((fname + '::op_add', fname + '::op_add', [A_, B_], eqchk([be((a + b) % p)] * 6)))
            reqs.append((fname + '::op_sub', fname + '::op_sub', [A_, B_], eqchk([be((a - b) % p)] * 6)))
            reqs.append((fname + '::op_mul', fname + '::op_mul', [A_, B_], eqchk([be(a * b * Rinv % p)] * 6)))
            reqs.append((fname + '::eq', fname + '::eq', [A_, B_], eqchk([bytes([a == b])])))
        for a in pool:
            A_ = be(a)
            v = a * Rinv % p
            reqs.append(('u256::neg', 'u256::neg', [A_, P_], eqchk([be((-a) % p)])))
            reqs.append(('u256::mul2', 'u256::mul2', [A_, P_], eqchk([be(2 * a % p)])))
            reqs.append(('u256::div2', 'u256::div2', [A_, P_], eqchk([be(a * ((p + 1) // 2) % p)])))
            reqs.append(('u256::square', 'u256::square', [A_, P_, be(minv, 8)], eqchk([be(a * a * Rinv % p)])))
            reqs.append((fname + '::neg_inplace', fname + '::neg_inplace', [A_], eqchk([be((-a) % p)])))
            reqs.append((fname + '::op_neg', fname + '::op_neg', [A_], eqchk([be((-a) % p)] * 2)))
            reqs.append((fname + '::double', fname + '::double', [A_], eqchk([be(2 * a % p)])))
            reqs.append((fname + '::triple', fname + '::triple', [A_], eqchk([be(3 * a % p)])))
            reqs.append((fname + '::squared', fname + '::squared', [A_], eqchk([be(a * a * Rinv % p)])))
            reqs.append((fname + '::is_zero', fname + '::is_zero', [A_], eqchk([bytes([a == 0])])))
            reqs.append((fname + '::is_one', fname + '::is_one', [A_], eqchk([bytes([v == 1])])))
            reqs.append((fname + '::to_slice', fname + '::to_slice', [A_], eqchk([be(v)])))
            reqs.append((fname + '::into_u256', fname + '::into_u256', [A_], eqchk([be(v)])))
            if a == 0:
                reqs.append((fname + '::inverse', fname + '::inverse', [A_], eqchk([b'\x00'])))
            else:
                # stored inverse: (v^-1) R = R^2 / a
                reqs.append((fname + '::inverse', fname + '::inverse', [A_], eqchk([b'\x01', be(pow(v, -1, p) * RR % p)])))
                reqs.append(('u256::invert', 'u256::invert', [A_, P_, be(RR * RR % p)], eqchk([be(pow(a, -1, p) * (RR * RR % p) % p)])))
            # value-level constructors: every n < 2^256 for new_mul_factor, n < p for new
            reqs.append((fname + '::new_mul_factor', fname + '::new_mul_factor', [A_], eqchk([be(a * RR % p)])))
            reqs.append((fname + '::new', fname + '::new', [A_], eqchk([b'\x01', be(a * RR % p)])))
        for n in (p, p + 1, RR - 1, RR - 2, 2 * p % RR, p + B64, p | (B64 - 1)):
            if n < RR:
                reqs.append((fname + '::new_mul_factor', fname + '::new_mul_factor', [be(n)], eqchk([be(n * RR % p)])))
                reqs.append((fname + '::new', fname + '::new', [be(n)], eqchk([b'\x00'] if n >= p else [b'\x01', be(n * RR % p)])))
                reqs.append((fname + '::from_slice', fname + '::from_slice', [be(n)], eqchk([b'\x00'] if n >= p else [b'\x01', be(n * RR % p)])))
        # pow
        exps = [0, 1, 2, 3, p - 1, p - 2, (p - 1) // 2, 1 << 255, RR - 1, (1 << 64), 0x8000000000000001] + [rnd.randrange(RR) for _ in range(4)]
        for a in pool[:10] + [rnd.choice(pool) for _ in range(6)]:
            v = a * Rinv % p
            for e in exps:
                reqs.append((fname + '::pow', fname + '::pow', [be(a), be(e)], eqchk([be(pow(v, e, p) * RR % p)])))
        # set_bit on the canonical value, all indices 0..300
        for a in pool[:6]:
            v = a * Rinv % p
            for i in list(range(0, 301)) if tier == 'thorough' else [0, 1, 31, 63, 64, 65, 127, 128, 191, 192, 200, 253, 254, 255, 256, 257, 299, 300]:
                for to in (0, 1):
                    if i < 256:
                        nv = (v | (1 << i)) if to else (v & ~(1 << i))
                    else:
                        nv = v
                    reqs.append((fname + '::set_bit', fname + '::set_bit', [be(a), be(i, 2), bytes([to])], eqchk([be(nv % p * RR % p)])))
        run_batch(drv, rec, reqs)

    # ---- conversions through the public API
    reqs = []
    for fname, p in (('fr', R), ('fq', Q)):
        specials = [0, 1, p - 1, p, p + 1, RR - 1, RR, RR + 1, p * p, p * p - 1, (1 << 512) - 1, ((1 << 512) // p) * p, ((1 << 512) // p) * p - 1,
                    p << 256, (p << 256) - 1, (p << 256) + p, p * (RR - 1), p * (RR - 1) + p - 1, 2 * p, 2 * p - 1]
        for ln in range(0, 71):
            vals = [0, (1 << (8 * ln)) - 1] + [s for s in specials if s < (1 << (8 * ln))][:10] + [rnd.getrandbits(8 * ln) if ln else 0 for _ in range(2)]
            for n in vals:
                if ln == 0:
                    n = 0
                bs = n.to_bytes(ln, 'big') if ln else b''
                if 1 <= ln <= 64:
                    exp = [b'\x01', be(n % p)]
                else:
                    exp = [b'\x00']
                if 1 <= ln <= 31 and n >= p:
                    exp = [b'\x00']   # cannot happen (n < 2^248 < p) but keeps the oracle literal
                reqs.append(('lib::%s_from_slice' % fname, 'pub::%s_from_slice' % fname, [bs], eqchk(exp)))
                reqs.append(('lib::%s_try_from' % fname, 'pub::%s_try_from' % fname, [bs], eqchk(exp)))
        for n in specials + [rnd.getrandbits(512) for _ in range(10)]:
            n %= (1 << 512)
            reqs.append(('lib::%s_interpret' % fname, 'pub::%s_interpret' % fname, [n.to_bytes(64, 'big')], eqchk([be(n % p)])))
        # decimal strings
        strs = ['', '0', '1', '9', '10', '00012', str(p), str(p - 1), str(p + 1), str(RR), '9' * 160, '1' + '0' * 100, str(rnd.getrandbits(500)),
                '12a', 'a12', '1 2', '-1', '+1', '1.0', '0x10', '１２', '٣', '1é', ' 1', '1\n', 'ⅷ', '1_000']
        for ch in range(0, 128):
            strs.append('1' + chr(ch) + '2')
            strs.append(chr(ch))
        for s in strs:
            ok = all(c in '0123456789' for c in s)
            if ok:
                n = 0
                for c in s:
                    n = n * 10 + ord(c) - 48
                exp = [b'\x01', be(n % p)]
            else:
                exp = [b'\x00']
            reqs.append(('lib::%s_from_str' % fname, 'pub::%s_from_str' % fname, [s.encode('utf-8')], eqchk(exp)))
    # from_hash: (int(h) mod (r-1)) + 1, None beyond 64 bytes
    for ln in list(range(0, 71)):
        vals = [0, (1 << (8 * ln)) - 1, R - 1, R - 2, R, 2 * (R - 1), (R - 1) * (R - 1), ((1 << 512) // (R - 1)) * (R - 1), ((1 << 512) // (R - 1)) * (R - 1) - 1] + [rnd.getrandbits(8 * ln) if ln else 0]
        for n in vals:
            if n >= (1 << (8 * ln)) and ln:
                continue
            if ln == 0:
                n = 0
            bs = n.to_bytes(ln, 'big') if ln else b''
            exp = [b'\x01', be(n % (R - 1) + 1)] if ln <= 64 else [b'\x00']
            reqs.append(('lib::fr_from_hash', 'pub::fr_from_hash', [bs], eqchk(exp)))
    # to_big_endian with every buffer length
    for ln in range(0, 71):
        v = rnd.randrange(Q)
        if ln == 32:
            reqs.append(('lib::fq_to_big_endian', 'pub::fq_to_big_endian', [be(v), be(ln, 2)], eqchk([b'\x01', be(v)])))
        else:
            reqs.append(('lib::fq_to_big_endian', 'pub::fq_to_big_endian', [be(v), be(ln, 2)], eqchk([b'\x00'])))
        reqs.append(('u256::to_big_endian', 'u256::to_big_endian', [be(v), be(ln, 2)], eqchk([b'\x01', be(v)] if ln == 32 else [b'\x00'])))
        bs = bytes(rnd.getrandbits(8) for _ in range(ln))
        reqs.append(('u256::from_slice', 'u256::from_slice', [bs], eqchk([b'\x01', bs] if ln == 32 else [b'\x00'])))
        reqs.append(('u512::from_slice', 'u512::from_slice', [bs], eqchk([b'\x01', bs] if ln == 64 else [b'\x00'])))
    # parity helpers and Fq2 byte layout of the public wrappers (C12 / C10)
    for _ in range(40):
        c0 = rnd.choice([0, 1, 2, 3, Q - 1, Q - 2, rnd.randrange(Q)]); c1 = rnd.choice([0, 1, 2, 3, Q - 1, Q - 2, rnd.randrange(Q)])
        reqs.append(('lib::fq2_is_even', 'pub::fq2_is_even', [be(c0) + be(c1)], eqchk([bytes([c0 % 2 == 0])])))
        reqs.append(('lib::fq_is_even', 'pub::fq_is_even', [be(c0)], eqchk([bytes([c0 % 2 == 0])])))
        reqs.append(('lib::fq2_to_slice', 'pub::fq2_to_slice', [be(c0) + be(c1)], eqchk([be(c1) + be(c0)])))
        reqs.append(('lib::fq2_from_slice', 'pub::fq2_from_slice', [be(c1) + be(c0)], eqchk([b'\x01', be(c1) + be(c0)])))
    for bad in (Q, Q + 1, RR - 1):
        reqs.append(('lib::fq2_from_slice', 'pub::fq2_from_slice', [be(bad) + be(1)], eqchk([b'\x00'])))
        reqs.append(('lib::fq2_from_slice', 'pub::fq2_from_slice', [be(1) + be(bad)], eqchk([b'\x00'])))
    for ln in (0, 1, 32, 63, 65, 128):
        reqs.append(('lib::fq2_from_slice', 'pub::fq2_from_slice', [bytes(ln)], eqchk([b'\x00'])))
    # public set_bit on canonical values
    for v in (0, 1, R - 1, R - 2, (1 << 255), rnd.randrange(R)):
        for i in [0, 1, 63, 64, 127, 128, 191, 192, 253, 254, 255, 256, 257, 300]:
            for to in (0, 1):
                nv = ((v | (1 << i)) if to else (v & ~(1 << i))) if i < 256 else v
                reqs.append(('lib::fr_set_bit', 'pub::fr_set_bit', [be(v), be(i, 2), bytes([to])], eqchk([be(nv % R)])))
    run_batch(drv, rec, reqs)

    # ---- U512::divrem and U512::new
    reqs = []
    mods = [Q, R, R - 1, 3, 1, (1 << 255) + 1, RR - 1, 0x30644e72e131a029b85045b68181585d97816a916871ca8d3c208c16d87cfd47]
    for m in mods:
        ds = [0, 1, m - 1, m, m + 1, 2 * m, m * m, m * m - 1, m * m + m - 1, RR - 1, RR, RR + 1, (1 << 512) - 1, ((1 << 512) // m) * m, ((1 << 512) // m) * m - 1,
              m << 256, (m << 256) - 1, m * (RR - 1), m * (m - 1) + (m - 1), m * m + m, (m - 1) * m + (m - 1), (1 << 511), (1 << 511) + m]
        ds += [rnd.getrandbits(rnd.choice([100, 256, 257, 300, 511, 512])) for _ in range(20)]
        for d in ds:
            if not (0 <= d < (1 << 512)):
                continue
            qt, rm = divmod(d, m)
            if qt < m and qt < RR:
                exp = [b'\x01', be(rm), be(qt)]
            else:
                exp = [b'\x00', be(rm)]
            reqs.append(('u512::divrem', 'u512::divrem', [d.to_bytes(64, 'big'), be(m)], eqchk(exp)))
    for m in (Q, R):
        for c1, c0 in [(0, 0), (m - 1, m - 1), (1, m - 1), (m - 1, 0), (rnd.randrange(m), rnd.randrange(m)), (RR - 1, 0), ((RR - 1) // m, m - 1)]:
            if c1 * m + c0 < (1 << 512):
                reqs.append(('u512::new', 'u512::new', [be(c1), be(c0), be(m)], eqchk([(c1 * m + c0).to_bytes(64, 'big')])))
    run_batch(drv, rec, reqs)

    # ---- bits / get_bit / set_bit of U256
    reqs = []
    for v in [0, 1, 2, 3, 1 << 255, RR - 1, (1 << 64), (1 << 64) - 1, 0x8000000000000000, rnd.getrandbits(256), rnd.getrandbits(100)]:
        bits = [int(c) for c in bin(v)[2:]] if v else []
        reqs.append(('u256::bits_without_leading_zeros', 'u256::bits_without_leading_zeros', [be(v)], eqchk([bytes(bits)])))
        reqs.append(('u256::bits', 'u256::bits', [be(v)], eqchk([bytes(int(c) for c in bin(v)[2:].zfill(256))])))
        for i in (0, 1, 63, 64, 65, 255, 256, 257, 1000):
            reqs.append(('u256::get_bit', 'u256::get_bit', [be(v), be(i, 2)], eqchk([b'\x01', bytes([(v >> i) & 1])] if i < 256 else [b'\x00'])))
            for to in (0, 1):
                nv = ((v | (1 << i)) if to else (v & ~(1 << i))) if i < 256 else v
                reqs.append(('u256::set_bit', 'u256::set_bit', [be(v), be(i, 2), bytes([to])], eqchk([be(nv), bytes([i < 256])])))
    run_batch(drv, rec, reqs)

    # ---- sum_of_products with extreme residues (extra carries) and Fq2 arithmetic on the same classes
    reqs = []
    Rinv = pow(RR, -1, Q)
    ext = [Q - 1, Q - 2, Q - 3, Q - 4, Q - 5, Q - B64, (Q - 1) // 2, 1, 0, RR - Q, RR % Q] + [Q - 1 - rnd.randrange(1 << 20) for _ in range(6)]
    for T in (1, 2, 3, 4, 8):
        cases = []
        cases.append(([Q - 1] * T, [Q - 1] * T))
        cases.append(([Q - 1] * T, [Q - 2] * T))
        for _ in range(60 if tier == 'quick' else 600):
            cases.append(([rnd.choice(ext) for _ in range(T)], [rnd.choice(ext) for _ in range(T)]))
        for _ in range(40 if tier == 'quick' else 400):
            cases.append(([rnd.randrange(Q) for _ in range(T)], [rnd.randrange(Q) for _ in range(T)]))
        for xs, ys in cases:
            exp = sum(x * y for x, y in zip(xs, ys)) * Rinv % Q
            reqs.append(('fq::sum_of_products', 'fq::sum_of_products', [be(x) for x in xs] + [be(y) for y in ys], eqchk([be(exp)])))
    # Fq2 multiplication / squaring / wrappers on stored extremes
    for _ in range(300 if tier == 'quick' else 3000):
        a0, a1, b0, b1 = [rnd.choice(ext) for _ in range(4)]
        va = mk('Fq2', [a0 * Rinv % Q, a1 * Rinv % Q]); vb = mk('Fq2', [b0 * Rinv % Q, b1 * Rinv % Q])
        prod = S.NUM.mul('Fq2', va, vb)
        reqs.append(('fq2::mul_inplace', 'fq2::mul_inplace', [be(a0) + be(a1), be(b0) + be(b1)], eqchk([S.tw_enc('Fq2', prod)])))
        reqs.append(('fq2::op_mul', 'fq2::op_mul', [be(a0) + be(a1), be(b0) + be(b1)], eqchk([S.tw_enc('Fq2', prod)] * 6)))
        sq = S.NUM.mul('Fq2', va, va)
        reqs.append(('fq2::squared', 'fq2::squared', [be(a0) + be(a1)], eqchk([S.tw_enc('Fq2', sq)])))
    run_batch(drv, rec, reqs)

    # ---- square roots (C14)
    reqs = []
    def fq_sqrt_chk(v):
        def chk(out):
            sq = S.fq_is_square(v)
            if out is None:
                return ('Some' if sq else 'None', 'panic')
            if out[0] == b'\x00':
                return None if not sq else ('Some(root of %x)' % v, 'None')
            s = S.fq_dec(out[1])
            if not sq:
                return ('None', 'Some(%x)' % s)
            if s * s % Q != v % Q:
                return ('s*s = %x' % v, 'Some(%x)' % s)
            return None
        return chk
    vs = [0, 1, 2, 3, 4, 5, Q - 1, Q - 2, Q - 4, (Q - 1) // 2, (Q + 1) // 2] + [rnd.randrange(Q) for _ in range(40)] + [pow(rnd.randrange(Q), 2, Q) for _ in range(40)]
    for v in vs:
        reqs.append(('fq::sqrt', 'fq::sqrt', [S.fq_enc(v)], fq_sqrt_chk(v)))
    def fq2_sqrt_chk(x):
        def chk(out):
            sq = S.fq2_is_square(x)
            if out is None:
                return ('Some' if sq else 'None', 'panic')
            if out[0] == b'\x00':
                return None if not sq else ('Some(root of %s)' % S.tw_enc('Fq2', x).hex(), 'None')
            s = S.tw_dec('Fq2', out[1])
            if S.NUM.mul('Fq2', s, s) != x:
                return ('s*s = x', 'Some(%s)' % S.tw_enc('Fq2', s).hex())
            return None
        return chk
    xs = []
    for a in [0, 1, 2, 3, 5, Q - 1, Q - 2, Q - 3, (Q - 1) // 2, (Q + 1) // 2, (Q + 3) // 2] + [rnd.randrange(Q) for _ in range(30)]:
        xs.append(mk('Fq2', [a, 0]))
        xs.append(mk('Fq2', [0, a]))
    for _ in range(60):
        y = S.tw_rand('Fq2', rnd)
        xs.append(S.NUM.mul('Fq2', y, y))
        xs.append(S.tw_rand('Fq2', rnd))
    for x in xs:
        reqs.append(('fq2::sqrt', 'fq2::sqrt', [S.tw_enc('Fq2', x)], fq2_sqrt_chk(x)))
    run_batch(drv, rec, reqs)
    return rec.stats, rec.viols
