#!/usr/bin/env python3
"""regenerate /verif/MANIFEST.json from lib/props.py (claimed properties) and the not-applicable table"""
import json, os, sys
HERE = os.path.dirname(os.path.abspath(__file__))
VERIF = os.path.dirname(HERE)
sys.path.insert(0, HERE)
import props

ids = [json.loads(l)['id'] for l in open(os.path.join(VERIF, 'properties.jsonl'))]
checks = []
for pid in ids:
    if pid not in props.PROPS:
        continue
    p = props.PROPS[pid]
    checks.append(dict(
        property_id=pid,
        quick_cmd='./check %s --tier quick' % pid,
        thorough_cmd='./check %s --tier thorough' % pid,
        evidence_file='/verif/evidence/%s.json' % pid,
        replay_cmd_template='./check --replay {path}',
        engine=p.get('engine', 'mirvc / Verus / Kani (see DESIGN.md §4)'),
        level_claimed=dict(category='proof', text=p.get('level_text', p.get('explanation', '')), design_ref=p.get('design_ref', 'DESIGN.md §5 ' + pid)),
        level_note='; '.join(p.get('trusted_base', [])),
        technique=p.get('technique', 'contract-based deductive verification: per-function pre/postconditions discharged function by function against callee contracts'),
    ))
na = []
for pid in ids:
    if pid not in props.PROPS:
        na.append(dict(property_id=pid, reason=props.NOT_APPLICABLE.get(pid, 'not yet covered by a check')))
m = dict(
    version=1,
    setup_cmd='./check --setup',
    hooks=dict(guard='john_yu_sm9_core_verif',
               enable='RUSTFLAGS="--cfg john_yu_sm9_core_verif" (set by lib/driver.py when it builds the replay driver against /repo)',
               baseline_off_cmd='cd /repo && cargo test --workspace --no-fail-fast --offline',
               source_commits=props.HOOK_COMMITS, add_only=True),
    engines=props.ENGINES,
    checks=checks,
    notes=props.NOTES,
    not_applicable=na)
json.dump(m, open(os.path.join(VERIF, 'MANIFEST.json'), 'w'), indent=1)
print('MANIFEST: %d checks, %d not applicable' % (len(checks), len(na)))
