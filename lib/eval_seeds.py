#!/usr/bin/env python3
"""Confirm every seeded change (applies, existing suite passes with it, its demonstration fails with it and passes without it)
and run the owning property's check against it.  Writes seeded/<id>/meta.json and seeded/RESULTS.json.
Usage: eval_seeds.py [ids...]   (never commits anything to /repo; every patch is undone with `git checkout -- .`)"""
import os, sys, json, subprocess, re, shutil, time, glob
VERIF = os.path.dirname(os.path.dirname(os.path.abspath(__file__)))
REPO = '/repo'
TGT = '/tmp/seed_eval_target'

def sh(cmd, cwd=None, timeout=3600, env=None):
    e = dict(os.environ)
    e['CARGO_NET_OFFLINE'] = 'true'
    if env:
        e.update(env)
    p = subprocess.run(cmd, shell=True, cwd=cwd, capture_output=True, text=True, timeout=timeout, env=e)
    return p.returncode, p.stdout + p.stderr

def clean_repo():
    sh('git checkout -- . && git clean -fdq src', cwd=REPO)

def run_demo(d, release=False):
    demo = os.path.join(d, 'demo')
    if not os.path.isdir(demo):
        return None
    work = '/tmp/seed_demo'
    shutil.rmtree(work, ignore_errors=True)
    shutil.copytree(demo, work)
    ct = os.path.join(work, 'Cargo.toml')
    t = open(ct).read()
    t = re.sub(r'path\s*=\s*"/tmp/wts?_C\d+"', 'path = "/repo"', t)
    open(ct, 'w').write(t)
    rc, out = sh('cargo run --offline -q %s' % ('--release' if release else ''), cwd=work, env={'CARGO_TARGET_DIR': TGT}, timeout=1800)
    return rc, out[-600:]

def main():
    ids = sys.argv[1:] or sorted(os.path.basename(p) for p in glob.glob(os.path.join(VERIF, 'seeded', 'C*_mut*')))
    results = {}
    rp = os.path.join(VERIF, 'seeded', 'RESULTS.json')
    if os.path.exists(rp):
        results = json.load(open(rp))
    for sid in ids:
        d = os.path.join(VERIF, 'seeded', sid)
        prop = sid.split('_')[0]
        meta = dict(id=sid, property=prop)
        notes = open(os.path.join(d, 'notes.md')).read() if os.path.exists(os.path.join(d, 'notes.md')) else ''
        meta['title'] = notes.split('\n')[0].lstrip('# ').strip()
        clean_repo()
        # demo on the clean tree
        has_demo_patch = os.path.exists(os.path.join(d, 'demo_test.patch'))
        if has_demo_patch:
            rc, out = sh('git apply -C1 %s' % os.path.join(d, 'demo_test.patch'), cwd=REPO)
            rc2, out2 = sh('cargo test --offline seeded_demo 2>&1 | grep -E "^test result|^test .*(ok|FAILED)$"', cwd=REPO, env={'CARGO_TARGET_DIR': TGT})
            meta['demo_clean'] = 'pass' if (rc == 0 and re.search(r'test result: ok\. [1-9]\d* passed; 0 failed', out2) and 'FAILED' not in out2) else 'FAIL: ' + out2[-200:]
            clean_repo()
        else:
            r = run_demo(d)
            meta['demo_clean'] = None if r is None else ('pass' if r[0] == 0 else 'FAIL rc=%d %s' % (r[0], r[1][-200:]))
        # apply the change
        rc, out = sh('git apply %s' % os.path.join(d, 'patch.diff'), cwd=REPO)
        meta['applies'] = rc == 0
        if rc != 0:
            meta['error'] = out[-300:]
            clean_repo()
            results[sid] = meta
            continue
        rc, out = sh('cargo test --workspace --no-fail-fast --offline 2>&1 | grep -E "^test result|FAILED|failed" | head -8', cwd=REPO, env={'CARGO_TARGET_DIR': TGT})
        oks = re.findall(r'test result: ok\. (\d+) passed; 0 failed', out)
        meta['suite_with_change'] = 'pass (%s)' % '+'.join(oks) if len(oks) == 3 and sum(map(int, oks)) == 68 else 'FAIL: ' + out[-300:]
        if has_demo_patch:
            rc, _ = sh('git apply -C1 %s' % os.path.join(d, 'demo_test.patch'), cwd=REPO)
            rc2, out2 = sh('cargo test --offline seeded_demo 2>&1 | grep -E "^test result|^test .*(ok|FAILED)$"', cwd=REPO, env={'CARGO_TARGET_DIR': TGT})
            meta['demo_with_change'] = 'fails (as intended)' if (rc == 0 and re.search(r'test result: FAILED|[1-9]\d* failed', out2)) else 'PASSES?: ' + out2[-200:]
            sh('git apply -R -C1 %s' % os.path.join(d, 'demo_test.patch'), cwd=REPO)
        else:
            r = run_demo(d)
            meta['demo_with_change'] = None if r is None else ('fails (as intended) rc=%d' % r[0] if r[0] != 0 else 'PASSES?')
        # our checks
        t0 = time.time()
        rc, out = sh('./check %s --tier quick' % prop, cwd=VERIF, timeout=7200)
        meta['check_cmd'] = './check %s --tier quick' % prop
        meta['check_exit'] = rc
        meta['check_seconds'] = round(time.time() - t0, 1)
        viol = re.findall(r'^VIOLATION property=\S+ replay=(\S+)(.*)$', out, re.M)
        obls = re.findall(r'^  obligation: (.*)$', out, re.M)
        meta['violations'] = len(viol)
        meta['with_failing_input'] = sum(1 for v in viol if 'no-failing-input-found' not in v[1])
        meta['obligations_reported'] = sorted(set(o.strip()[:90] for o in obls))[:12]
        meta['undecided'] = re.findall(r'^UNDECIDED (.*)$', out, re.M)[:4]
        clean_repo()
        json.dump(dict(id=sid, breaks_property=prop, title=meta['title'],
                       needs_to_manifest=(re.search(r'(?is)(what (?:it|exactly is) need[^\n]*\n.*?)(?:\n#|\Z)', notes) or [None, ''])[1][:600] if notes else '',
                       confirmed=dict(patch_applies=meta['applies'], existing_suite_with_change=meta.get('suite_with_change'),
                                      demonstration_without_change=meta.get('demo_clean'), demonstration_with_change=meta.get('demo_with_change')),
                       ran=['git -C /repo apply seeded/%s/patch.diff' % sid, 'cargo test --workspace --no-fail-fast --offline', 'demo (cargo run / cargo test seeded_demo)',
                            meta['check_cmd'], 'git -C /repo checkout -- .'],
                       check_result=dict(exit=meta['check_exit'], violations=meta['violations'], with_failing_input_replayed=meta['with_failing_input'],
                                         obligations=meta['obligations_reported'], undecided=meta['undecided'], seconds=meta['check_seconds'])),
                  open(os.path.join(d, 'meta.json'), 'w'), indent=1)
        results[sid] = meta
        json.dump(results, open(rp, 'w'), indent=1)
        print(sid, meta.get('suite_with_change'), '| demo clean:', meta.get('demo_clean'), '| with:', meta.get('demo_with_change'), '| check exit', meta['check_exit'], 'viol', meta['violations'], flush=True)
    clean_repo()
    shutil.rmtree('/tmp/seed_demo', ignore_errors=True)

if __name__ == '__main__':
    main()
