"""Contract-directed counterexample search on the REAL code (through the hook driver).

Role (DESIGN §2.3): attach a concrete failing input to a failed / undecided obligation and keep
detection power when a proof loses its anchor.  A pass of this search is never counted as a proof;
a failure is always a genuine disagreement between the real function and the property's oracle on a
concrete input, so it can be reported as a violation with a replay file.
"""
import os, sys, random, itertools
HERE = os.path.dirname(os.path.abspath(__file__))
sys.path.insert(0, os.path.join(HERE, '..', 'spec'))
sys.path.insert(0, os.path.join(HERE, '..', 'mirvc'))
import sm9spec as S
from tower import mk, BELOW, ARITY, is_struct

Q = S.Q

def special_fq():
    return [0, 1, Q - 1, 2, Q - 2, (Q + 1) // 2, (Q - 1) // 2, 5, 1 << 255, (1 << 256) % Q, (1 << 64) - 1]

def pool(ty, rnd, nrand):
    """list of numeric values of tower type ty: structured specials + randoms"""
    if ty.startswith('int:'):
        return [int(x, 0) for x in ty[4:].split(',')]
    if ty == 'u128':
        return [0, 1, 2, 3, 4, 5, 7, 8, 9, 255, 256, (1 << 64) - 1, 1 << 64, (1 << 64) + 1, 1 << 127, (1 << 128) - 1,
                0x600000000058F98A, 0x2400000000215d941, 0xd8000000019062ed0000b98b0cb27659] + [rnd.getrandbits(rnd.choice([8, 64, 65, 127, 128])) for _ in range(nrand)]
    if ty == 'Fq':
        return special_fq() + [rnd.randrange(Q) for _ in range(nrand)]
    out = [S.tw_zero(ty), S.tw_one(ty)]
    n = ARITY[ty]
    sub = pool(BELOW[ty], rnd, 2)
    # sparse: a single non-zero component (both special and random)
    for i in range(n):
        for v in (sub[1], sub[2] if len(sub) > 2 else sub[1], sub[-1]):
            cs = [S.tw_zero(BELOW[ty]) for _ in range(n)]
            cs[i] = v
            out.append(mk(ty, cs))
    # -1
    out.append(S.NUM.neg(ty, S.tw_one(ty)))
    for _ in range(nrand):
        out.append(S.tw_rand(ty, rnd))
    # half-sparse randoms
    for _ in range(max(1, nrand // 4)):
        cs = [S.tw_rand(BELOW[ty], rnd) if rnd.random() < 0.5 else S.tw_zero(BELOW[ty]) for _ in range(n)]
        out.append(mk(ty, cs))
    return out

def enc(ty, v):
    if ty == 'bool':
        return bytes([1 if v else 0])
    if ty.startswith('int:'):
        return int(v).to_bytes(8, 'big')
    if ty == 'u128':
        return int(v).to_bytes(16, 'big')
    return S.tw_enc(ty, v)

def dec_result(retty, parts):
    """decode the driver's reply according to the declared return type"""
    if retty == 'bool':
        return bool(parts[0][0])
    if retty.startswith('opt:'):
        if parts[0] == b'\x00':
            return None
        return S.tw_dec(retty[4:], parts[1])
    return S.tw_dec(retty, parts[0])

def search_spec(drv, spec, seed, nrand=24, max_cases=400):
    """returns (ncases, violation|None)"""
    if not spec.hook or spec.oracle is None:
        return 0, None
    fn, argtys, retty = spec.hook
    rnd = random.Random((seed, spec.fid).__hash__() & 0xffffffff)
    pools = [pool(t, rnd, nrand) for t in argtys]
    cases = []
    if len(argtys) == 0:
        cases = [[]]
    elif len(argtys) == 1:
        cases = [[v] for v in pools[0]]
    else:
        # all pairs of the structured specials is too many for Fq12; sample
        sp = [p[:min(len(p), 12)] for p in pools]
        cases = [list(c) for c in itertools.product(*sp)]
        rnd.shuffle(cases)
        cases = cases[:max_cases // 2]
        for _ in range(max_cases // 2):
            cases.append([rnd.choice(p) for p in pools])
    if getattr(spec, 'search_max', None):
        rnd.shuffle(cases)
        cases = cases[:spec.search_max]
    if spec.pre_num:
        cases = [spec.pre_num(S.NUM, *c) for c in cases]
    reqs = [(fn, [enc(t, v) for t, v in zip(argtys, c)]) for c in cases]
    res = drv.batch(reqs)
    for c, rq, r in zip(cases, reqs, res):
        try:
            exp = spec.oracle(S.NUM, *c)
        except Exception as e:
            continue
        if r[0] != 'ok':
            return len(cases), dict(fid=spec.fid, hook=fn, args=[a.hex() for a in rq[1]], expected=repr_val(retty, exp),
                                    observed=' '.join(r), failure='panic-or-unknown')
        got = dec_result(retty, r[1])
        if got != exp:
            return len(cases), dict(fid=spec.fid, hook=fn, args=[a.hex() for a in rq[1]], expected=repr_val(retty, exp),
                                    observed=repr_val(retty, got), failure='wrong-result')
    return len(cases), None

def repr_val(retty, v):
    if retty == 'bool':
        return str(bool(v))
    if retty.startswith('opt:'):
        if v is None:
            return 'None'
        return 'Some(' + S.tw_enc(retty[4:], v).hex() + ')'
    if v is None:
        return 'None'
    return S.tw_enc(retty, v).hex()

def check_case(drv, spec, case):
    """run one concrete input tuple (numeric tower values) on the real function; returns violation dict or None"""
    fn, argtys, retty = spec.hook
    if spec.pre_num:
        case = spec.pre_num(S.NUM, *case)
    args = [enc(t, v) for t, v in zip(argtys, case)]
    r = drv.call(fn, *args)
    exp = spec.oracle(S.NUM, *case)
    if r[0] != 'ok':
        return dict(fid=spec.fid, hook=fn, args=[a.hex() for a in args], expected=repr_val(retty, exp), observed=' '.join(r), failure='panic-or-unknown')
    got = dec_result(retty, r[1])
    if got != exp:
        return dict(fid=spec.fid, hook=fn, args=[a.hex() for a in args], expected=repr_val(retty, exp), observed=repr_val(retty, got), failure='wrong-result')
    return None
