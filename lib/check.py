#!/usr/bin/env python3
"""check <Cxx> [--tier quick|thorough] | --replay <file> | --setup | --relock [ids]

Single entry point of the SM9_core contract-verification machinery (DESIGN.md §10).
Exit 0: every obligation of the property discharged on the current tree.
Exit 1: `VIOLATION property=<id> replay=<path>[ no-failing-input-found]`.
Exit 2: `UNDECIDED ...` (timeout, unsupported construct, lost anchor, build failure).
"""
import sys, os, json, time, argparse, traceback
HERE = os.path.dirname(os.path.abspath(__file__))
VERIF = os.path.dirname(HERE)
sys.path.insert(0, HERE)
sys.path.insert(0, os.path.join(VERIF, 'mirvc'))
sys.path.insert(0, os.path.join(VERIF, 'spec'))
sys.setrecursionlimit(20000)
import prep, props, tasks

def load_lock():
    p = os.path.join(VERIF, 'obligations.lock.json')
    if os.path.exists(p):
        return json.load(open(p))
    return {}

def load_known():
    p = os.path.join(VERIF, 'known_findings.json')
    if os.path.exists(p):
        return json.load(open(p))
    return {'known': [], 'fixed': []}

def run_property(pid, tier, seed, relock=False):
    t0 = time.time()
    spec = props.PROPS[pid]
    ctx = prep.Ctx(tier, seed)
    obligations = []
    violations = []
    searches = []
    notes = []
    undecided_reasons = []
    try:
        for tname in spec['tasks'](tier):
            r = tasks.run_task(ctx, tname)
            for o in r.get('obligations', []):
                if pid in o.get('props', [pid]):
                    obligations.append(o)
            for v in r.get('violations', []):
                if pid in v.get('props', [pid]):
                    violations.append(v)
            for s in r.get('searches', []):
                if pid in s.get('props', [pid]):
                    searches.append(s)
            for n in r.get('notes', []):
                notes.append(n)
            if r.get('undecided'):
                undecided_reasons.append('%s: %s' % (tname, r['undecided']))
    except prep.BuildError as e:
        print('UNDECIDED property=%s build of the current tree failed: %s' % (pid, str(e)[-400:].replace('\n', ' ')))
        write_evidence(pid, tier, seed, spec, [], [], [], time.time() - t0, ['build failed'], ctx)
        return 2
    lock = load_lock()
    locked = set(lock.get(pid, []))
    have = {o['id']: o for o in obligations}
    missing = sorted(locked - set(have))
    bad = [o for o in obligations if o['status'] in ('refuted', 'failed')]
    und = [o for o in obligations if o['status'] == 'undecided']
    # known findings
    known = load_known().get('known', [])
    def is_known(v):
        for k in known:
            if k.get('property') == pid and k.get('obligation') == v.get('obligation') and k.get('input_class') == v.get('input_class'):
                return k
        return None
    rc = 0
    os.makedirs(os.path.join(VERIF, 'replays'), exist_ok=True)
    nviol = 0
    reported = set()
    # 1. concrete violations (real failing input on the real code)
    for i, v in enumerate(violations):
        k = is_known(v)
        if k:
            print('KNOWN-FINDING: property=%s %s' % (pid, k.get('what', v.get('obligation'))))
            continue
        path = os.path.join(VERIF, 'replays', '%s_%s_%d.json' % (pid, ctx.hash[:8], i))
        json.dump(dict(property=pid, **v), open(path, 'w'), indent=1)
        print('VIOLATION property=%s replay=%s' % (pid, path))
        print('  obligation: %s' % v.get('obligation'))
        print('  %s' % str(v.get('summary', ''))[:300])
        reported.add(v.get('obligation'))
        nviol += 1
        rc = 1
    # 2. failed obligations without a concrete failing input
    for j, o in enumerate(bad):
        if any(o['id'] == r or (r and o['id'].startswith(str(r))) for r in reported):
            continue
        stem = o['id'].split('/')[0]
        if any(str(r).startswith(stem) for r in reported if r):
            continue
        path = os.path.join(VERIF, 'replays', '%s_%s_obl%d.json' % (pid, ctx.hash[:8], j))
        json.dump(dict(property=pid, obligation=o['id'], engine=o.get('engine'), verifier_output=o.get('detail'),
                       witness=o.get('cex'), note='no failing input reproduced on the real code; the obligation is discharged on the reference tree'),
                  open(path, 'w'), indent=1)
        print('VIOLATION property=%s replay=%s no-failing-input-found' % (pid, path))
        print('  obligation: %s  [%s]' % (o['id'], o.get('engine')))
        print('  %s' % str(o.get('detail', ''))[:300])
        nviol += 1
        rc = 1
    if rc == 0:
        if und or missing or undecided_reasons:
            for o in und[:10]:
                print('UNDECIDED property=%s obligation=%s %s' % (pid, o['id'], str(o.get('detail', ''))[:200]))
            for m in missing[:10]:
                print('UNDECIDED property=%s obligation=%s missing (lost anchor)' % (pid, m))
            for u in undecided_reasons[:10]:
                print('UNDECIDED property=%s %s' % (pid, u[:300]))
            rc = 2
    if not obligations and rc == 0:
        print('UNDECIDED property=%s no obligations generated (vacuity guard)' % pid)
        rc = 2
    wall = time.time() - t0
    write_evidence(pid, tier, seed, spec, obligations, violations, searches, wall, notes, ctx, nviol)
    if relock:
        lock[pid] = sorted(o['id'] for o in obligations if o['status'] == 'discharged')
        json.dump(lock, open(os.path.join(VERIF, 'obligations.lock.json'), 'w'), indent=0, sort_keys=True)
    ndis = sum(1 for o in obligations if o['status'] == 'discharged')
    print('%s: %d obligations, %d discharged, %d violations, %d search cases, %.1fs, exit %d' % (
        pid, len(obligations), ndis, nviol, sum(s.get('cases', 0) for s in searches), wall, rc))
    return rc

def write_evidence(pid, tier, seed, spec, obligations, violations, searches, wall, notes, ctx, nviol=0):
    ndis = sum(1 for o in obligations if o['status'] == 'discharged')
    by_engine = {}
    for o in obligations:
        e = by_engine.setdefault(o.get('engine', '?'), dict(obligations=0, discharged=0, seconds=0.0, backend=o.get('backend', '')))
        e['obligations'] += 1
        e['discharged'] += o['status'] == 'discharged'
        e['seconds'] = round(e['seconds'] + float(o.get('seconds', 0)), 3)
    fns = sorted(set(o.get('function', o['id'].split('/')[0]) for o in obligations))
    bounded = [o for o in obligations if o.get('bounded')]
    samples = []
    for o in obligations[:6]:
        samples.append(dict(id=o['id'], engine=o.get('engine'), status=o['status'], detail=str(o.get('detail', ''))[:160]))
    for s in searches[:2]:
        samples.append(dict(search=s.get('name'), cases=s.get('cases')))
    ev = dict(
        property_id=pid, tier=tier, seed=seed, level='proof',
        coverage=dict(
            obligations=len(obligations), discharged=ndis,
            checker_cmd='./check %s --tier %s' % (pid, tier),
            trusted_base=spec.get('trusted_base', []),
            samples=samples or [dict(note='no obligations')],
            functions_under_contract=fns,
            engines=by_engine,
            bounded=[dict(id=o['id'], bound=o.get('bounded')) for o in bounded],
            not_counted_as_proof=dict(
                counterexample_search_cases=sum(s.get('cases', 0) for s in searches),
                searches=[dict(name=s.get('name'), cases=s.get('cases'), seconds=s.get('seconds')) for s in searches]),
            obligation_list=[dict(id=o['id'], status=o['status'], engine=o.get('engine'), seconds=o.get('seconds')) for o in obligations],
            tree=ctx.hash, notes=notes[:80],
            explanation=spec.get('explanation', ''),
        ),
        assumptions=spec.get('assumptions', []),
        wall_s=round(wall, 2), violations=nviol)
    os.makedirs(os.path.join(VERIF, 'evidence'), exist_ok=True)
    json.dump(ev, open(os.path.join(VERIF, 'evidence', pid + '.json'), 'w'), indent=1)

def replay(path):
    import replay as rp
    return rp.replay_file(path)

def main():
    ap = argparse.ArgumentParser()
    ap.add_argument('prop', nargs='?')
    ap.add_argument('--tier', default=os.environ.get('VERIF_TIER', 'quick'))
    ap.add_argument('--replay')
    ap.add_argument('--setup', action='store_true')
    ap.add_argument('--relock', action='store_true')
    a = ap.parse_args()
    seed = int(os.environ.get('VERIF_SEED', '0') or 0)
    if a.setup:
        return tasks.setup()
    if a.replay:
        return replay(a.replay)
    if not a.prop or a.prop not in props.PROPS:
        print('unknown property; known: ' + ' '.join(sorted(props.PROPS)))
        return 2
    if a.tier not in ('quick', 'thorough'):
        a.tier = 'quick'
    try:
        return run_property(a.prop, a.tier, seed, a.relock)
    except Exception as e:
        traceback.print_exc()
        print('UNDECIDED property=%s internal error of the machinery: %r' % (a.prop, e))
        return 2

if __name__ == '__main__':
    sys.exit(main())
