"""property -> tasks / trusted base / explanation (DESIGN.md §5)"""

A = {
 'A1': 'A1: q and r are prime',
 'A2': 'A2: field theory of the specification (Z/p is a field; u^2=-2, v^2=u, w^3=v define fields; norm of a non-zero element is non-zero; Fermat/Euler)',
 'A3': 'A3: the chord-and-tangent law on y^2=x^3+b is an abelian group (associativity)',
 'A4': 'A4: #E(Fq)=r and G2 is the order-r subgroup of the twist (no 2-torsion, [r]P=O)',
 'A5': 'A5: pairing theory (reduced R-ate pairing bilinear, non-degenerate, chain independent)',
 'A6': 'A6: ark-ff 0.5 BigInt primitives meet their contracts; x86 ADX (asm feature) path equals the portable path',
 'A7': 'A7: tool soundness: rustc MIR/expansion = compiled program, Verus+Z3, Kani+CBMC, z3, and the generators written here (extractor, mirvc)',
 'A8': 'A8: purity (no hidden mutable state; forbid(unsafe_code))',
 'A9': 'A9: core/alloc/byteorder library contracts (Option/Result combinators, slices, read_u64)',
 'A10': 'A10: rand RNG is an arbitrary source',
 'A11': 'A11: 64-bit usize',
 'L2': 'hand-over: Fq ring-operation contracts (add/sub/mul/neg/double/squared/inverse = operations of Z/q on the Montgomery view, sum_of_products = sum of products) are the postconditions discharged by the limb-level engine under C06/C12',
}

def T(*names):
    return lambda tier: list(names)

PROPS = {
 'C12': dict(
    tasks=T('handover:limbs', 'verus:divrem', 'kani:arkff', 'mirvc:specs_tower', 'search:specs_tower', 'mirvc:specs_lib', 'lsearch:all', 'lsearch:release', 'ground:all'),
    trusted_base=[A['A2'], A['A7'], A['A9'], A['L2']],
    assumptions=[A['A2'], A['A6'], A['A7'], A['A9']],
    explanation='every function of fields/fq2.rs verified against Fq[u]/(u^2+2) from its rustc MIR with callees replaced by contracts'),
 'C17': dict(
    tasks=T('handover:limbs', 'mirvc:specs_tower', 'search:specs_tower', 'mirvc:specs_fexp', 'search:specs_fexp', 'mirvc:specs_lib', 'ground:all'),
    trusted_base=[A['A2'], A['A7'], A['A9'], A['L2']],
    assumptions=[A['A2'], A['A6'], A['A7'], A['A9']],
    explanation='every function of fq4.rs / fq12.rs verified against F_q[w]/(w^12+2) on arbitrary elements; Frobenius maps against x^(q^k) with constants recomputed exactly; both final exponentiations by exponent contracts: result = x^e with e = (q^12-1)/r mod q^12-1'),
 'C11': dict(
    tasks=T('handover:limbs', 'mirvc:specs_tower', 'search:specs_tower', 'mirvc:specs_lib', 'mirvc:specs_loops', 'mirvc:specs_fexp', 'verus:divrem', 'verus:invr', 'pairsearch:all', 'ground:all'),
    trusted_base=[A['A2'], A['A7'], A['A9'], A['L2']],
    assumptions=[A['A2'], A['A6'], A['A7'], A['A9']],
    explanation='Gt::mul / inverse / one are the Fq12 operations (delegation + tower obligations); Gt::pow is the generic square-and-multiply loop with invariant res = g^prefix; == and to_slice are coordinate-wise; reduction of exponents mod r uses g^r = 1 (final exponent contract + A2)'),
 'C04': dict(
    tasks=T('handover:limbs', 'handover:tower', 'mirvc:specs_groups', 'mirvc:specs_lib', 'gsearch:all', 'gsearch:release', 'ground:all'),
    trusted_base=[A['A2'], A['A3'], A['A4'], A['A7'], A['A9'], 'hand-over: Base-field ring contracts (C06/C12)'],
    assumptions=[A['A3'], A['A4'], A['A6'], A['A7']],
    explanation='double, every branch of Add (4 representation combinations x generic/equal/opposite/identity), Neg, Sub, AddAssign verified generically over P::Base from rustc MIR against the affine chord-and-tangent law; valid_rep(out) proved as ideal membership modulo the curve equations'),
 'C15': dict(
    tasks=T('handover:limbs', 'handover:tower', 'mirvc:specs_groups', 'mirvc:specs_lib', 'gsearch:all', 'gsearch:release', 'ground:all'),
    trusted_base=[A['A2'], A['A4'], A['A7'], A['A9']],
    assumptions=[A['A4'], A['A6'], A['A7']],
    explanation='==, is_zero, to_affine, to_jacobian, zero verified over the affine view for identity / z=1 / general representatives and all relations'),
 'C09': dict(
    tasks=T('handover:limbs', 'handover:tower', 'mirvc:specs_groups', 'mirvc:specs_lib', 'kani:dec_quick', 'gsearch:all', 'gsearch:release', 'csearch:debug', 'csearch:release', 'ground:all'),
    trusted_base=[A['A3'], A['A4'], A['A7'], A['A9']],
    assumptions=[A['A3'], A['A4'], A['A7']],
    explanation='AffineG::new: Ok iff y^2 = x^3 + b and (check_order => [r-1]P + P = O), for both values of check_order (mirvc); every decoder reaches it with exactly the parsed coordinates (Kani modular decoder harnesses); the scalar used is r-1 (ground)'),
 'C06': dict(
    tasks=(lambda tier: ['handover:limbs', 'verus:divrem', 'verus:invr', 'kani:arkff', 'kani:limbs_linear', 'kani:field_linear', 'mirvc:specs_lib', 'mirvc:specs_loops', 'lsearch:all', 'lsearch:release', 'ground:all'] if tier == 'quick' else ['handover:limbs', 'verus:divrem', 'verus:invr', 'kani:arkff', 'kani:limbs_linear', 'kani:field_linear', 'mirvc:specs_lib', 'mirvc:specs_loops', 'lsearch:all', 'lsearch:release', 'ground:all']),
    trusted_base=[A['A1'], A['A6'], A['A7']],
    assumptions=[A['A1'], A['A6'], A['A7']],
    explanation='Fq and Fr arithmetic proved on the extracted real text (Verus chains divrem / invr: mul, square, add, sub, neg, double, inverse, set_bit, conversions with postconditions on the Montgomery value), linear operations also by body-agnostic Kani harnesses; FieldElement::pow by its loop invariant; operator forms and lib.rs wrappers as delegation obligations'),
 'C13': dict(
    tasks=(lambda tier: ['handover:limbs', 'verus:divrem', 'verus:invr', 'kani:arkff', 'kani:dispatch', 'kani:bytes', 'kani:limbs_linear', 'mirvc:specs_lib', 'lsearch:all', 'lsearch:release', 'ground:all'] if tier == 'quick' else ['handover:limbs', 'verus:divrem', 'verus:invr', 'kani:arkff', 'kani:dispatch', 'kani:bytes', 'kani:limbs_linear', 'mirvc:specs_lib', 'lsearch:all', 'lsearch:release', 'ground:all']),
    trusted_base=[A['A6'], A['A7'], A['A9']],
    assumptions=[A['A6'], A['A7'], A['A9']],
    explanation='length dispatch of from_slice / from_hash / to_big_endian and the byte<->limb conversions by Kani over all lengths and bytes; the reductions behind them (U512::divrem remainder, Fq/Fr::new, new_mul_factor, From<Fq> for U256, set_bit) by Verus on the extracted text; wrappers as delegation obligations; from_str by search only'),
 'C05': dict(
    tasks=T('handover:limbs', 'handover:tower', 'handover:groups', 'mirvc:specs_loops', 'mirvc:specs_lib', 'mirvc:specs_groups', 'verus:divrem', 'verus:invr', 'gsearch:all', 'gsearch:release', 'lsearch:all', 'lsearch:release', 'ground:all'),
    trusted_base=[A['A3'], A['A4'], A['A7'], A['A9'], 'hand-over (by statement, not machine-linked): U256::from(Fr) = canonical value and BitIterator::next = bit n-1 of it, both E1 obligations; SkipWhile over it yields the binary digits from the leading 1 (core iterator semantics, A9)'],
    assumptions=[A['A3'], A['A4'], A['A6'], A['A7']],
    explanation='double-and-add loop of Mul<Fr> for G<P> verified with the inductive invariant pt(res) = [prefix] pt(self) over the abstract group; wrappers k*P / P*k are delegation obligations; double/+= meet the group law (C04 obligations)'),
 'C08': dict(
    tasks=(lambda tier: ['handover:limbs', 'handover:tower', 'handover:groups', 'kani:dec_quick', 'kani:bytes', 'csearch:debug', 'csearch:release', 'mirvc:specs_lib', 'mirvc:specs_groups'] if tier == 'quick' else ['handover:limbs', 'handover:tower', 'handover:groups', 'kani:dec_quick', 'kani:bytes', 'csearch:debug', 'csearch:release', 'mirvc:specs_lib', 'mirvc:specs_groups', 'kani:dec_strict']),
    trusted_base=[A['A7'], A['A9']],
    assumptions=[A['A7'], A['A9']],
    explanation='six decoders: wrong length => Err for every length 0..=140; exact length: no panic, prefix check, coordinates < q, decoded point carries exactly the parsed coordinates with z = 1, parity selection (Kani, all byte strings); accept/reject of the pair is the validated constructor (C09 obligations); identical in both profiles (dual-profile search, Kani default checks)'),
 'C10': dict(
    tasks=(lambda tier: ['handover:limbs', 'handover:tower', 'handover:groups', 'kani:enc', 'kani:bytes', 'csearch:debug', 'csearch:release', 'mirvc:specs_lib', 'mirvc:specs_groups'] if tier == 'quick' else ['handover:limbs', 'handover:tower', 'handover:groups', 'kani:enc', 'kani:bytes', 'csearch:debug', 'csearch:release', 'mirvc:specs_lib', 'mirvc:specs_groups']),
    trusted_base=[A['A7'], A['A9']],
    assumptions=[A['A7'], A['A9']],
    explanation='six encoders place the big-endian canonical affine coordinates at the format offsets (imaginary part first in G2), prefix 0x02/0x03 from the parity of y (real part in G2) - Kani on z = 1 inputs; to_affine on every representative gives the affine coordinates (mirvc); round trip follows from the decoder contract (C08)'),
 'C07': dict(
    tasks=(lambda tier: ['handover:limbs', 'verus:divrem', 'verus:invr', 'kani:arkff', 'kani:limbs_linear', 'kani:field_linear', 'mirvc:specs_lib', 'term:all', 'lsearch:all', 'lsearch:release', 'rsearch:all', 'ground:all'] if tier == 'quick' else ['handover:limbs', 'verus:divrem', 'verus:invr', 'kani:arkff', 'kani:limbs_linear', 'kani:field_linear', 'mirvc:specs_lib', 'term:all', 'lsearch:all', 'lsearch:release', 'rsearch:all', 'ground:all']),
    trusted_base=[A['A6'], A['A7']],
    assumptions=[A['A6'], A['A7']],
    explanation='value < modulus is a postcondition of every constructor and arithmetic obligation of the limb layer (Verus), divrem returns a remainder < modulus for every 512-bit input, Fr::random terminates for every RNG stream (loop-free call chain) and returns that remainder; == / is_zero are limb equality on canonical values'),
 'C14': dict(
    tasks=T('handover:limbs', 'handover:tower', 'verus:divrem', 'kani:field_linear', 'mirvc:specs_sqrt', 'mirvc:specs_loops', 'lsearch:all', 'lsearch:release', 'mirvc:specs_lib', 'csearch:debug', 'csearch:release', 'ground:all'),
    trusted_base=[A['A2'], A['A7']],
    assumptions=[A['A2'], A['A7']],
    explanation='Fq::sqrt in the exponent domain under Euler\'s three cases: sqrt(0) = 0, Some(s) with s*s = x on every path for non-zero squares (sound + complete), None for non-squares; pow by the loop-invariant obligation; Fq2::sqrt: every returned root squares to x (17 paths, incl. the zero-imaginary branch), sqrt(0) = 0; Fq2::sqrt completeness: for x = (p + r u)^2 every feasible path returns Some (Fq::sqrt calls replaced by their full contract, decided from the factorisation c*g^2 and the ground Legendre symbol of c; 2 and -2 non-residues are ground facts); Fq::div2 by Verus and Kani; decoders rely on it through csearch'),
 'C18': dict(
    tasks=(lambda tier: ['handover:limbs', 'verus:divrem', 'verus:invr', 'kani:limbs_linear', 'kani:field_linear', 'kani:bytes', 'kani:dec_quick', 'kani:enc', 'kani:dispatch', 'psearch:all', 'pairsearch:all'] if tier == 'quick' else
           ['handover:limbs', 'verus:divrem', 'verus:invr', 'kani:limbs_linear', 'kani:field_linear', 'kani:bytes', 'kani:dec_quick', 'kani:enc', 'kani:dispatch', 'kani:dec_strict', 'psearch:all', 'pairsearch:all']),
    trusted_base=[A['A6'], A['A7'], A['A9'], A['A11']],
    assumptions=[A['A6'], A['A7'], A['A11']],
    explanation='every Kani harness proves all default checks (overflow, shift, index, unwrap, debug_assert, unreachable) of the real MIR it reaches, with debug assertions on; the Verus chains prove the absence of overflow / out-of-range index / truncation in every limb-layer function they cover (a lost proof makes C18 undecided); the dual-profile searches (limbs, codecs, groups, pairings) execute every request on the dev and the release build and compare; the debug-only assertion of U512::divrem is executed by these searches, not proved (rule R15)'),
 'C03': dict(
    tasks=T('handover:limbs', 'handover:tower', 'handover:groups', 'mirvc:specs_pairing', 'mirvc:specs_lib', 'mirvc:specs_groups', 'mirvc:specs_fexp', 'pairsearch:all', 'ground:all'),
    trusted_base=[A['A4'], A['A5'], A['A7'], A['A8'], A['A9']],
    assumptions=[A['A5'], A['A7'], A['A8']],
    explanation='pairing() is a function of the affine views only (hence of the group elements, C15); fast_pairing / G2Prepared normalise first; every entry point returns one for EVERY identity representative (x, y, 0) (path obligations of G2Prepared::from / miller_loop); both final exponentiations compute the same map (C17 exponent contracts); equality of the two Miller chains after final exponentiation is pairing theory (A5)'),
 'C01': dict(
    tasks=T('handover:limbs', 'handover:tower', 'handover:groups', 'mirvc:specs_pairing', 'mirvc:specs_lib', 'mirvc:specs_fexp', 'mirvc:specs_loops', 'pairsearch:all', 'ground:all'),
    trusted_base=[A['A2'], A['A5'], A['A7']],
    assumptions=[A['A2'], A['A5'], A['A7']],
    explanation='decidable clauses proved: e(O,Q) = e(P,O) = 1 at all three entry points for every identity representative; every pairing value is x^((q^12-1)/r) (exponent contracts) so g^r = 1 and g^(r-1)*g = 1 with the pow / mul contracts (A2); bilinearity and non-degeneracy of the specified function are pairing theory (A5)'),
 'C16': dict(
    tasks=T('handover:limbs', 'handover:tower', 'mirvc:specs_groups', 'mirvc:specs_lib', 'mirvc:specs_loops', 'mirvc:specs_pairing', 'gsearch:all', 'gsearch:release', 'csearch:debug', 'csearch:release', 'pairsearch:all', 'ground:all'),
    trusted_base=[A['A3'], A['A4'], A['A5'], A['A7']],
    assumptions=[A['A3'], A['A4'], A['A5'], A['A7']],
    explanation='data-abstraction argument: every operation of the alphabet has a contract requires valid_rep(args) only, ensures valid_rep(out) and pt(out) = op(pt(args)) (C04, C05, C15 obligations incl. on-curve closure); every observer is a function of pt(args) only (==, is_zero, to_affine-based encoders, pairing entry points incl. identity representatives)'),
 'C02': dict(
    tasks=T('handover:limbs', 'handover:tower', 'handover:groups', 'mirvc:specs_lines', 'mirvc:specs_fexp', 'mirvc:specs_pairing', 'mirvc:specs_lib', 'mirvc:specs_groups', 'ground:all', 'kani:enc', 'pairsearch:all'),
    trusted_base=[A['A2'], A['A4'], A['A5'], A['A7'], 'not proved: the loop invariant of the two Miller loops (f = product of the line values at the partial multiples); it is replaced by the structural obligations below plus A5'],
    assumptions=[A['A2'], A['A5'], A['A7']],
    explanation='structural Miller contract: (i) ground: the signed digits of the loop constant evaluate to 6t+2, all partial multiples make genuine chords/tangents, Frobenius point constants are w^(q^k-1); (ii) every line function (eval_g_tangent, eval_g_line, g_tangent, g_line, get_fq12) equals the tangent/chord through the untwisted points up to a factor in F_q^2 / F_q^4, and point_pi1/pi2/q_power_frobenius are the twist Frobenius; T is updated by the group law (C04, exact-z contracts); (iv) both final exponentiations raise to (q^12-1)/r exactly and (q^4-1) divides it; (v) serialisation order highest coefficient first (Kani). From these and A5 the value is the R-ate pairing of the standard; the real code is additionally compared byte for byte with an independent textbook implementation (search, not proof)'),
}

HOOK_COMMITS = ['8aeb3f0']
ENGINES = [
 dict(name='E3 mirvc', path='/verif/mirvc', serves_properties=['C12', 'C17', 'C11'],
      kind_free_text='weakest-precondition / symbolic-path VC generator over rustc MIR of the real functions; callees replaced by contracts; polynomial obligations decided by a ring normaliser with inverse-variable elimination'),
 dict(name='replay driver', path='/verif/replay', serves_properties=['C12', 'C17', 'C11'],
      kind_free_text='real crate built from /repo with --cfg john_yu_sm9_core_verif; executes counterexamples and the contract-directed search on the real functions'),
]
NOTES = 'See DESIGN.md. Exit 0 = all obligations discharged; 1 = VIOLATION; 2 = UNDECIDED (never an alarm).'
NOT_APPLICABLE = {}
