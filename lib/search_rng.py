"""Contract-directed search for Fr::random (C07: values obtained from ANY RNG stream are fully reduced, and obtaining them terminates).
The driver feeds an exact byte stream (cyclic) to the real code; a watchdog inside the stream turns a sampling loop that never
accepts into a failed call.  Never counted as proof."""
import random

R_ORDER = 0xB640000002A3A6F1D603AB4FF58EC74449F2934B18EA8BEEE56EE19CD69ECF25

def streams(seed, tier):
    rnd = random.Random(seed * 7919 + 3)
    out = [('const-%02x' % b, bytes([b])) for b in range(256)]
    rb = R_ORDER.to_bytes(32, 'big')
    for nm, s in (('r-be', rb), ('r-le', rb[::-1]), ('r-1-le', (R_ORDER - 1).to_bytes(32, 'little')), ('r+1-le', (R_ORDER + 1).to_bytes(32, 'little')),
                  ('r-le-twice', rb[::-1] * 2), ('zero-then-ff', bytes(32) + b'\xff' * 32), ('ff-then-zero', b'\xff' * 32 + bytes(32)),
                  ('alt', b'\x00\xff'), ('ramp', bytes(range(256)))):
        out.append((nm, s))
    for i in range(40 if tier == 'quick' else 400):
        out.append(('rand%d' % i, bytes(rnd.randrange(256) for _ in range(rnd.choice((1, 7, 32, 64, 65, 128))))))
    return out

def search(drv, seed, tier='quick'):
    viols, n = [], 0
    reqs = streams(seed, tier)
    res = drv.batch([('pub::fr_random', [s]) for _, s in reqs])
    for (nm, s), r in zip(reqs, res):
        n += 1
        def bad(failure, exp, obs):
            if len(viols) < 10 and not any(v['failure'] == failure for v in viols):
                viols.append(dict(fid='lib::Fr::random', hook='pub::fr_random', args=[s.hex()], expected=exp, observed=obs, failure=failure))
        if r[0] != 'ok':
            bad('no-result', 'a field element after finitely many RNG bytes', ' '.join(r)[:120])
            continue
        enc, used, isz, rt = r[1][0], int.from_bytes(r[1][1], 'big'), r[1][2][0], r[1][3][0]
        v = int.from_bytes(enc, 'big')
        if v >= R_ORDER:
            bad('not-reduced', 'encoding below r', enc.hex())
        if bool(isz) != (v == 0):
            bad('is_zero-mismatch', 'is_zero == (encoding is 0)', 'is_zero=%d enc=%s' % (isz, enc.hex()[:16]))
        if not rt:
            bad('not-canonical', 'x == from_slice(to_slice(x))', 'false for stream %s' % nm)
    return dict(cases=n), viols
