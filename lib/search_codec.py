"""Contract-directed search for the point encoders/decoders of lib.rs (C08, C09, C10) on the real code through the public API.
Oracle: the SM9 byte formats and the curve/subgroup membership computed with exact arithmetic (spec/sm9spec.py)."""
import os, sys, random
HERE = os.path.dirname(os.path.abspath(__file__))
sys.path.insert(0, os.path.join(HERE, '..', 'spec'))
sys.path.insert(0, os.path.join(HERE, '..', 'mirvc'))
import sm9spec as S
from tower import mk
from search_groups import Grp, canon_jac

Q, R = S.Q, S.R_ORDER
TWIST_ORDER = R * (2 * Q - R)

def be(n, l=32):
    return int(n).to_bytes(l, 'big')

def fq2_sqrt(x):
    """a square root in Fq2 = Fq[u]/(u^2+2) or None (textbook: norm method)"""
    a, b = x[2]
    if a == 0 and b == 0:
        return mk('Fq2', [0, 0])
    if b == 0:
        s = S.fq_sqrt(a)
        if s is not None:
            return mk('Fq2', [s, 0])
        t = S.fq_sqrt((-a) * pow(2, -1, Q) % Q)
        return mk('Fq2', [0, t]) if t is not None else None
    n = (a * a + 2 * b * b) % Q
    w = S.fq_sqrt(n)
    if w is None:
        return None
    inv2 = pow(2, -1, Q)
    for ww in (w, Q - w):
        z0sq = (a + ww) * inv2 % Q
        z0 = S.fq_sqrt(z0sq)
        if z0 is None or z0 == 0:
            continue
        z1 = b * pow(2 * z0, -1, Q) % Q
        r = mk('Fq2', [z0, z1])
        if S.NUM.mul('Fq2', r, r) == x:
            return r
    return None

class Codec:
    def __init__(self, name):
        self.g = Grp(name)
        self.name = name
        self.ty = self.g.ty
        self.clen = 32 if name == 'g1' else 64

    def coord_bytes(self, v):
        if self.ty == 'Fq':
            return be(v)
        return be(v[2][1]) + be(v[2][0])          # imaginary part first

    def coord_parse(self, b):
        """value or None if some component is >= q"""
        if self.ty == 'Fq':
            v = int.from_bytes(b, 'big')
            return v if v < Q else None
        c1 = int.from_bytes(b[:32], 'big'); c0 = int.from_bytes(b[32:], 'big')
        if c1 >= Q or c0 >= Q:
            return None
        return mk('Fq2', [c0, c1])

    def parity(self, y):
        return (y if self.ty == 'Fq' else y[2][0]) & 1

    def rhs(self, x):
        A = S.NUM
        return A.add(self.ty, A.mul(self.ty, A.mul(self.ty, x, x), x), self.g.curve.b)

    def sqrt(self, v):
        return S.fq_sqrt(v) if self.ty == 'Fq' else fq2_sqrt(v)

    def member(self, P):
        if not self.g.curve.on_curve(P):
            return False
        if self.name == 'g2':
            return self.g.curve.mul(R, P) is None
        return True

    def enc(self, P, fmt):
        x, y = P
        if fmt == 'raw':
            return self.coord_bytes(x) + self.coord_bytes(y)
        if fmt == 'unc':
            return b'\x04' + self.coord_bytes(x) + self.coord_bytes(y)
        return bytes([2 | self.parity(y)]) + self.coord_bytes(x)

    def dec(self, b, fmt):
        """('ok', P) | ('err',)"""
        L = self.clen
        if fmt == 'raw':
            if len(b) != 2 * L:
                return ('err',)
            body = b
        elif fmt == 'unc':
            if len(b) != 2 * L + 1 or b[0] != 4:
                return ('err',)
            body = b[1:]
        else:
            if len(b) != L + 1 or b[0] not in (2, 3):
                return ('err',)
            x = self.coord_parse(b[1:])
            if x is None:
                return ('err',)
            y = self.sqrt(self.rhs(x))
            if y is None:
                return ('err',)
            if self.parity(y) != (b[0] & 1):
                y = S.NUM.neg(self.ty, y)
            if self.parity(y) != (b[0] & 1):
                return ('err',)          # both roots have the same parity bit (Re(y) = 0): not re-encodable
            P = (x, y)
            return ('ok', P) if self.member(P) else ('err',)
        x = self.coord_parse(body[:L]); y = self.coord_parse(body[L:])
        if x is None or y is None:
            return ('err',)
        P = (x, y)
        return ('ok', P) if self.member(P) else ('err',)

FMT_FN = {'raw': 'from_slice', 'unc': 'from_uncompressed', 'cmp': 'from_compressed'}

def search(drv, seed, tier='quick'):
    rnd = random.Random(seed * 31337 + 3)
    stats = {}
    viols = []
    def count(k, n=1):
        stats[k] = stats.get(k, 0) + n
    def bad(fid, fn, args, exp, obs, failure):
        if not any(v['fid'] == fid and v['failure'] == failure for v in viols) and len(viols) < 40:
            viols.append(dict(fid=fid, hook=fn, args=[a.hex() for a in args], expected=exp, observed=obs, failure=failure))
    for gname in ('g1', 'g2'):
        cd = Codec(gname)
        G = cd.g
        C = G.curve
        ks = [1, 2, 3, 88, rnd.randrange(1, R), rnd.randrange(1, R)] + ([rnd.randrange(1, R) for _ in range(10)] if tier == 'thorough' else [])
        pts = [C.mul(k, G.gen) for k in ks]
        # points with a leading-zero coordinate byte (search a few small multiples)
        extra = []
        P = G.gen
        for k in range(2, 400 if gname == 'g1' else 120):
            P = C.add(P, G.gen)
            cb = cd.coord_bytes(P[0]) + cd.coord_bytes(P[1])
            if any(cb[i] == 0 for i in range(0, len(cb), 32)):
                extra.append(P)
                if len(extra) >= 3:
                    break
        pts += extra
        if gname == 'g1':
            # valid G1 points whose x is within 40 of 0 or of q (cofactor 1: every curve point is in G1); a coordinate
            # near q shares q's top limbs - the boundary of every "below the modulus" test on a VALID encoding
            near = []
            for x in list(range(Q - 1, Q - 41, -1)) + list(range(1, 41)):
                y = S.fq_sqrt((x * x * x + 5) % Q)
                if y is not None and y != 0:
                    near.append((x, y))
                    near.append((x, Q - y))
            pts += near[:8] + [p_ for p_ in near if p_[0] > Q // 2][:4]
        # ---------------- encoders: every representative, three formats, round trip
        reqs = []
        for P in pts:
            for lbl, J in G.reps(P, rnd) + [('jac2', S.jac(G.ty, P, S.tw_rand(G.ty, rnd)))]:
                reqs.append((P, lbl, [canon_jac(G.ty, J)]))
        res = drv.batch([('pub::%s_encode' % gname, a) for _, _, a in reqs])
        for (P, lbl, a), r in zip(reqs, res):
            count(gname + '::encode')
            fn = 'pub::%s_encode' % gname
            if r[0] != 'ok':
                bad('lib::%s_encode' % gname, fn, a, 'three encodings', ' '.join(r), 'panic')
                continue
            for got, fmt in zip(r[1], ('raw', 'unc', 'cmp')):
                exp = cd.enc(P, fmt)
                if got != exp:
                    bad('lib::%s_to_%s' % (gname, fmt), fn, a, exp.hex(), got.hex(), 'encoding-' + fmt + '-' + lbl)
        # ---------------- decoders
        cases = []
        def addcase(fmt, b, tag):
            cases.append((fmt, bytes(b), tag))
        L = cd.clen
        for P in pts:
            for fmt in ('raw', 'unc', 'cmp'):
                e = cd.enc(P, fmt)
                addcase(fmt, e, 'valid')
                # wrong parity / negated point are valid encodings of -P
                addcase(fmt, cd.enc(C.neg(P), fmt), 'valid-neg')
                # all prefix bytes
                if fmt != 'raw':
                    for pb in range(256):
                        addcase(fmt, bytes([pb]) + e[1:], 'prefix')
                # single-byte and single-bit corruptions
                for _ in range(6):
                    i = rnd.randrange(len(e))
                    c = bytearray(e); c[i] ^= 1 << rnd.randrange(8)
                    addcase(fmt, c, 'bitflip')
                    c = bytearray(e); c[i] = rnd.randrange(256)
                    addcase(fmt, c, 'byte')
                # lengths off by one / truncated / extended
                addcase(fmt, e[:-1], 'short'); addcase(fmt, e + b'\x00', 'long'); addcase(fmt, e[1:], 'shift')
                # coordinates in [q, 2^256): add q to each 32-byte component when it fits
                off = 0 if fmt == 'raw' else 1
                ncomp = (len(e) - off) // 32
                for ci in range(ncomp):
                    v = int.from_bytes(e[off + 32 * ci: off + 32 * ci + 32], 'big')
                    if v + Q < (1 << 256):
                        c = bytearray(e); c[off + 32 * ci: off + 32 * ci + 32] = be(v + Q)
                        addcase(fmt, c, 'coord+q')
        for fmt in ('raw', 'unc', 'cmp'):
            for ln in range(0, 141):
                addcase(fmt, bytes(ln), 'zeros'); addcase(fmt, b'\xff' * ln, 'ones')
                if ln:
                    addcase(fmt, bytes([4 if fmt == 'unc' else 2]) + bytes(rnd.getrandbits(8) for _ in range(ln - 1)), 'random')
            # coordinates equal to q, q+1, 2^256-1 in a correctly framed string
            B64 = 1 << 64
            tops = []
            for d in (B64 - 1, B64 - 2, B64 - 3, 0xF000000000000000, 0xF000000000000003, 0xFFFFFFFF00000000, 0x8000000000000000, 0xE56F9B27E351457E, 0x1A9064D81CAEBA84):
                for j in range(3):
                    tops += [Q + d + j, Q - d - j]
            for v in [Q, Q + 1, (1 << 256) - 1, Q - 1, 0, 1] + tops:
                ncomp = {'raw': 2, 'unc': 2, 'cmp': 1}[fmt] * (L // 32)
                pre = {'raw': b'', 'unc': b'\x04', 'cmp': b'\x02'}[fmt]
                for ci in range(ncomp):
                    comps = [be(rnd.randrange(Q)) for _ in range(ncomp)]
                    comps[ci] = be(v)
                    addcase(fmt, pre + b''.join(comps), 'boundary-coord')
            # x with / without a point (compressed), random x
            for _ in range(12 if tier == 'quick' else 60):
                x = S.tw_rand(G.ty, rnd)
                for pb in (2, 3):
                    addcase('cmp', bytes([pb]) + cd.coord_bytes(x), 'random-x')
        # near misses and (G2) twist points outside the subgroup
        for P in pts[:3]:
            one = S.tw_one(G.ty)
            for Pm in ((S.NUM.add(G.ty, P[0], one), P[1]), (P[0], S.NUM.add(G.ty, P[1], one))):
                for fmt in ('raw', 'unc'):
                    addcase(fmt, cd.enc(Pm, fmt), 'near-miss')
        if gname == 'g2':
            tw = []
            tries = 0
            while len(tw) < (3 if tier == 'quick' else 8) and tries < 200:
                tries += 1
                x = S.tw_rand('Fq2', rnd)
                y = fq2_sqrt(cd.rhs(x))
                if y is not None:
                    tw.append((x, y))
            h = 2 * Q - R
            small = []
            for T in tw[:2]:
                for d in (13, 1621, 13 * 1621):
                    Pd = C.mul(TWIST_ORDER // d, T)
                    if Pd is not None:
                        small.append(Pd)
                cc = C.mul(h, T)         # cofactor-cleared: in G2
                if cc is not None:
                    tw.append(cc)
            for T in small[:4]:
                tw.append(C.add(T, pts[0]))      # subgroup point + small-order point
            for T in tw + small:
                for fmt in ('raw', 'unc', 'cmp'):
                    addcase(fmt, cd.enc(T, fmt), 'twist-point')
        res = drv.batch([('pub::%s_%s' % (gname, FMT_FN[fmt]), [b]) for fmt, b, _ in cases])
        for (fmt, b, tag), r in zip(cases, res):
            fn = 'pub::%s_%s' % (gname, FMT_FN[fmt])
            fid = 'lib::%s_%s' % (gname, FMT_FN[fmt])
            count(fid)
            exp = cd.dec(b, fmt)
            if r[0] != 'ok':
                bad(fid, fn, [b], 'Ok/Err without panic', ' '.join(r), 'panic-' + tag)
                continue
            out = r[1]
            if exp[0] == 'err':
                if out[0] == b'\x01':
                    bad(fid, fn, [b], 'Err', 'Ok(%s)' % out[1].hex()[:60], 'accepts-' + tag)
            else:
                if out[0] != b'\x01':
                    bad(fid, fn, [b], 'Ok', 'Err(%s)' % out[1].hex(), 'rejects-' + tag)
                elif out[1] != b:
                    bad(fid, fn, [b], 're-encoding == input', out[1].hex()[:80], 'roundtrip-' + tag)
                elif fmt == 'cmp' and out[2] != cd.enc(exp[1], 'raw'):
                    bad(fid, fn, [b], cd.enc(exp[1], 'raw').hex()[:80], out[2].hex()[:80], 'wrong-point-' + tag)
    return stats, viols
