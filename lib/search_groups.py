"""Contract-directed search on the real group code (groups.rs through the hook driver) against the textbook
affine chord-and-tangent law (spec/sm9spec.py).  Same role as search.py: attaches concrete failing inputs; never a proof."""
import os, sys, random, itertools
HERE = os.path.dirname(os.path.abspath(__file__))
sys.path.insert(0, os.path.join(HERE, '..', 'spec'))
sys.path.insert(0, os.path.join(HERE, '..', 'mirvc'))
import sm9spec as S
from tower import mk

Q, R = S.Q, S.R_ORDER
OMEGA = None

def omega():
    """a primitive cube root of unity in Fq"""
    global OMEGA
    if OMEGA is None:
        g = 2
        while True:
            w = pow(g, (Q - 1) // 3, Q)
            if w != 1:
                OMEGA = w
                break
            g += 1
    return OMEGA

class Grp:
    def __init__(self, name):
        self.name = name
        self.ty = 'Fq' if name == 'g1' else 'Fq2'
        self.curve = S.G1C if name == 'g1' else S.G2C
        self.gen = S.P1 if name == 'g1' else S.P2

    def scal(self, P, w):
        """(w x, y) for w in Fq"""
        if P is None:
            return None
        return (S.NUM.mul(self.ty, P[0], w), P[1])

    def reps(self, P, rnd):
        """list of (label, Jacobian triple) for the affine point P (None = identity)"""
        ty = self.ty
        if P is None:
            rho = S.tw_rand(ty, rnd)
            A = S.NUM
            r2 = A.mul(ty, rho, rho)
            # (the identity carrying the generator's x and y: a shortcut keyed on coordinates confuses it with the generator)
            return [('inf_canon', S.jac(ty, None)),
                    ('inf_xy', (r2, A.neg(ty, A.mul(ty, r2, rho)), S.tw_zero(ty))),
                    ('inf_rand', (S.tw_rand(ty, rnd), S.tw_rand(ty, rnd), S.tw_zero(ty))),
                    ('inf_genxy', (self.gen[0], self.gen[1], S.tw_zero(ty)))]
        lam = S.tw_rand(ty, rnd)
        m1 = S.NUM.neg(ty, S.tw_one(ty))
        # z whose Montgomery representation is the integer 1 (value R^-1): a limb-level "is one" test confuses it with z = 1
        rinv = pow(S.RR, -1, Q)
        lr = rinv if ty == 'Fq' else mk('Fq2', [rinv, 0])
        return [('aff', S.jac(ty, P)), ('jac', S.jac(ty, P, lam)), ('jac_m1', S.jac(ty, P, m1)), ('jac_rinv', S.jac(ty, P, lr))]

    def shared_xy(self, J, P):
        """values that share X and Y with the representative J = (X, Y, Z) of P but denote OTHER points: (X, Y, -Z) is -P and
        (X, Y, w Z) is phi(P) = (w x, y)  (w^3 = 1); a shortcut that compares coordinates instead of points confuses them"""
        A = S.NUM
        ty = self.ty
        X, Y, Z = J
        w = omega()
        wz = A.mul(ty, Z, w if ty == 'Fq' else mk('Fq2', [w, 0]))
        return [('sameXY_negZ', (X, Y, A.neg(ty, Z)), self.curve.neg(P)), ('sameXY_wZ', (X, Y, wz), self.scal(P, w))]

    def enc(self, J):
        return S.g_enc(self.ty, J)

    def dec_aff(self, b):
        X, Y, Z = S.g_dec(self.ty, b)
        return S.affine(self.ty, X, Y, Z)

def viol(fid, fn, args, expected, observed, failure='wrong-result'):
    return dict(fid=fid, hook=fn, args=[a.hex() for a in args], expected=expected, observed=observed, failure=failure)

def show(ty, P):
    if P is None:
        return 'O'
    return '(' + S.tw_enc(ty, P[0]).hex() + ',' + S.tw_enc(ty, P[1]).hex() + ')'

SCALARS = [0, 1, 2, 3, 4, 5, 7, 8, R - 1, R - 2, R - 3, (R + 1) // 2, (R - 1) // 2, 1 << 64, (1 << 64) - 1, 1 << 128, 1 << 255 % R,
           (1 << 255) % R, 0xAAAAAAAAAAAAAAAAAAAAAAAAAAAAAAAAAAAAAAAAAAAAAAAAAAAAAAAAAAAAAAAA % R, (1 << 200) - 1]

def canon_jac(ty, J):
    """canonical (value) bytes x||y||z for the public-API driver functions"""
    def cb(v):
        if ty == 'Fq':
            return S.be(v)
        return S.be(v[2][0]) + S.be(v[2][1])
    return b''.join(cb(c) for c in J)

def dec_canon(ty, b):
    l = len(b) // 3
    def dv(x):
        if ty == 'Fq':
            return int.from_bytes(x, 'big')
        return mk('Fq2', [int.from_bytes(x[:32], 'big'), int.from_bytes(x[32:], 'big')])
    X, Y, Z = [dv(b[i * l:(i + 1) * l]) for i in range(3)]
    return S.affine(ty, X, Y, Z)

def search(drv, seed, tier='quick'):
    """returns (list of per-op stats, list of violations)"""
    rnd = random.Random(seed * 7919 + 17)
    stats = {}
    viols = []
    def count(op, n=1):
        stats[op] = stats.get(op, 0) + n
    for gname in ('g1', 'g2'):
        G = Grp(gname)
        ty = G.ty
        C = G.curve
        ks = [1, 2, 3, rnd.randrange(1, R), rnd.randrange(1, R)] + ([rnd.randrange(1, R) for _ in range(6)] if tier == 'thorough' else [])
        pts = [C.mul(k, G.gen) for k in ks]
        w = omega()
        reqs = []
        def push(op, fn, args, check):
            reqs.append((op, fn, args, check))
        for i, P in enumerate(pts):
            others = [('equal', P), ('opposite', C.neg(P)), ('generic', pts[(i + 1) % len(pts)]), ('double_of', C.add(P, P)),
                      ('same_y_other_x', G.scal(P, w)), ('same_y_other_x2', G.scal(P, w * w % Q)), ('identity', None)]
            for lp, JP in G.reps(P, rnd):
                # unary
                push('neg', gname + '::neg', [G.enc(JP)], C.neg(P))
                push('double', gname + '::double', [G.enc(JP)], C.add(P, P))
                push('to_affine', gname + '::to_affine', [G.enc(JP)], ('aff', P))
                push('is_zero', gname + '::is_zero', [G.enc(JP)], ('bool', P is None))
                for rel, Qp in others:
                    for lq, JQ in G.reps(Qp, rnd):
                        a = [G.enc(JP), G.enc(JQ)]
                        push('add', gname + '::add', a, C.add(P, Qp))
                        push('sub', gname + '::sub', a, C.add(P, C.neg(Qp)))
                        push('eq', gname + '::eq', a, ('bool', P == Qp))
                        if rel in ('equal', 'opposite', 'identity', 'same_y_other_x'):
                            push('add_ref', gname + '::add_ref', a, ('two', C.add(P, Qp)))
                            push('add_assign', gname + '::add_assign', a, ('two', C.add(P, Qp)))
                            push('add', gname + '::add', [a[1], a[0]], C.add(Qp, P))
                for lq, JQ, Qp in G.shared_xy(JP, P):
                    a = [G.enc(JP), G.enc(JQ)]
                    push('add', gname + '::add', a, C.add(P, Qp))
                    push('sub', gname + '::sub', a, C.add(P, C.neg(Qp)))
                    push('sub', gname + '::sub', [a[1], a[0]], C.add(Qp, C.neg(P)))
                    push('eq', gname + '::eq', a, ('bool', P == Qp))
            # identity on the left
            for li, JI in G.reps(None, rnd):
                for lp, JP in G.reps(P, rnd):
                    push('add', gname + '::add', [G.enc(JI), G.enc(JP)], P)
                    push('sub', gname + '::sub', [G.enc(JI), G.enc(JP)], C.neg(P))
                    push('eq', gname + '::eq', [G.enc(JI), G.enc(JP)], ('bool', False))
                for lj, JJ in G.reps(None, rnd):
                    push('add', gname + '::add', [G.enc(JI), G.enc(JJ)], None)
                    push('eq', gname + '::eq', [G.enc(JI), G.enc(JJ)], ('bool', True))
                push('neg', gname + '::neg', [G.enc(JI)], None)
                push('double', gname + '::double', [G.enc(JI)], None)
                push('to_affine', gname + '::to_affine', [G.enc(JI)], ('aff', None))
                push('is_zero', gname + '::is_zero', [G.enc(JI)], ('bool', True))
        # scalar multiplication
        Rinv_ = pow(S.RR, -1, R)
        nsc = SCALARS + [Rinv_, 2 * Rinv_ % R, (R - 1) * Rinv_ % R, (1 << 64) * Rinv_ % R] + [rnd.randrange(R) for _ in range(4 if tier == 'quick' else 40)]
        for P in pts[:2] if tier == 'quick' else pts[:4]:
            for lp, JP in G.reps(P, rnd)[:2]:
                for k in nsc:
                    k %= R
                    push('mul', gname + '::mul', [G.enc(JP), S.be(S.mont(k, R))], C.mul(k, P))
        for li, JI in G.reps(None, rnd):
            for k in (0, 1, 5, R - 1):
                push('mul', gname + '::mul', [G.enc(JI), S.be(S.mont(k, R))], None)
        # the lib.rs wrappers (operator impls of G1 / G2, scalar on either side, normalize) through the public API
        Rinv = pow(S.RR, -1, R)
        wsc = [0, 1, 2, R - 1, Rinv, 2 * Rinv % R, (R - 1) * Rinv % R, (1 << 64) * Rinv % R, (1 << 64), (1 << 128) + 5, rnd.randrange(R)]
        wreqs = []
        for P in pts[:3]:
            for lp, JP in G.reps(P, rnd)[:2] + G.reps(None, rnd)[:2]:
                Pa = P if lp in ('aff', 'jac', 'jac_m1', 'jac_rinv') else None
                for Qp in (pts[3 % len(pts)], P, C.neg(P), None):
                    JQ = G.reps(Qp, rnd)[1]
                    for k in wsc[:4] + [rnd.choice(wsc)]:
                        wreqs.append((Pa, Qp, k, [canon_jac(ty, JP), canon_jac(ty, JQ[1]), S.be(k)]))
                if Pa is not None:
                    for lq, JQ, Qp in G.shared_xy(JP, P):
                        wreqs.append((Pa, Qp, 1, [canon_jac(ty, JP), canon_jac(ty, JQ), S.be(1)]))
                        wreqs.append((Qp, Pa, 1, [canon_jac(ty, JQ), canon_jac(ty, JP), S.be(1)]))
            for k in wsc:
                JP = G.reps(P, rnd)[1][1]
                wreqs.append((P, P, k, [canon_jac(ty, JP), canon_jac(ty, JP), S.be(k)]))
        wres = drv.batch([('pub::%s_wrap_ops' % gname, a) for _, _, _, a in wreqs])
        for (Pa, Qp, k, a), r in zip(wreqs, wres):
            count(gname + '::wrappers')
            fn = 'pub::%s_wrap_ops' % gname
            if r[0] != 'ok':
                viols.append(viol('lib::%s_wrappers' % gname, fn, a, 'results', ' '.join(r), 'panic-or-unknown'))
                continue
            o = r[1]
            exp = [C.add(Pa, Qp), C.add(Pa, C.neg(Qp)), C.neg(Pa), C.mul(k, Pa), C.mul(k, Pa), Pa]
            names = ['add', 'sub', 'neg', 'mul', 'scalar*point', 'normalize']
            for nm, e, got in zip(names, exp, o[:6]):
                g_ = dec_canon(ty, got)
                if g_ != e:
                    viols.append(viol('lib::%s_%s' % (gname, nm), fn, a, show(ty, e), show(ty, g_), nm))
            if Pa is not None:
                zb = got[2 * (len(got) // 3):] if False else o[5][2 * (len(o[5]) // 3):]
                one = S.be(1) if ty == 'Fq' else S.be(1) + S.be(0)
                if zb != one:
                    viols.append(viol('lib::%s_normalize' % gname, fn, a, 'z = 1', zb.hex(), 'normalize-z'))
            if bool(o[6][0]) != (Pa is None):
                viols.append(viol('lib::%s_is_zero' % gname, fn, a, str(Pa is None), str(bool(o[6][0])), 'is_zero'))
            if bool(o[7][0]) != (Pa == Qp):
                viols.append(viol('lib::%s_eq' % gname, fn, a, str(Pa == Qp), str(bool(o[7][0])), 'eq'))
        # validated construction
        for P in pts:
            push('affine_new', gname + '::affine_new', [S.tw_enc(ty, P[0]), S.tw_enc(ty, P[1])], ('new', True))
            one = S.tw_one(ty)
            push('affine_new', gname + '::affine_new', [S.tw_enc(ty, S.NUM.add(ty, P[0], one)), S.tw_enc(ty, P[1])], ('new', False))
            push('affine_new', gname + '::affine_new', [S.tw_enc(ty, P[0]), S.tw_enc(ty, S.NUM.add(ty, P[1], one))], ('new', False))
        res = drv.batch([(fn, args) for _, fn, args, _ in reqs])
        for (op, fn, args, check), r in zip(reqs, res):
            count(gname + '::' + op)
            fid = 'groups::' + ('add' if op in ('add_ref',) else op)
            if r[0] != 'ok':
                viols.append(viol(fid, fn, args, str(check)[:80], ' '.join(r), 'panic-or-unknown'))
                continue
            out = r[1]
            if isinstance(check, tuple) and check and check[0] == 'bool':
                got = bool(out[0][0])
                if got != check[1]:
                    viols.append(viol(fid, fn, args, str(check[1]), str(got)))
            elif isinstance(check, tuple) and check and check[0] == 'aff':
                if out[0] == b'\x00':
                    got = None
                else:
                    got = (S.tw_dec(ty, out[1]), S.tw_dec(ty, out[2]))
                if got != check[1]:
                    viols.append(viol(fid, fn, args, show(ty, check[1]), show(ty, got)))
            elif isinstance(check, tuple) and check and check[0] == 'two':
                for o in out:
                    got = G.dec_aff(o)
                    if got != check[1]:
                        viols.append(viol(fid, fn, args, show(ty, check[1]), show(ty, got)))
                        break
            elif isinstance(check, tuple) and check and check[0] == 'new':
                got = out[0] == b'\x01'
                if got != check[1]:
                    viols.append(viol(fid, fn, args, 'Ok' if check[1] else 'Err', 'Ok' if got else 'Err'))
            else:
                got = G.dec_aff(out[0])
                if got != check:
                    viols.append(viol(fid, fn, args, show(ty, check), show(ty, got)))
                else:
                    # the result must be a valid representative (on the curve) -- implied by got == check for finite points
                    pass
            if len(viols) > 20:
                break
    return stats, viols
