"""Ground obligations: every constant of the current source tree is checked against its mathematical definition by exact
integer / finite-field evaluation of closed terms (no sampling, no search: the quantifier is empty).  Constants are parsed from
/repo's current source (mirvc/consts.py) or read from the real code through the hook driver where they are computed at run time."""
import os, sys
HERE = os.path.dirname(os.path.abspath(__file__))
sys.path.insert(0, os.path.join(HERE, '..', 'spec'))
sys.path.insert(0, os.path.join(HERE, '..', 'mirvc'))
import sm9spec as S
import consts
from tower import mk, pow_num

Q, R, RR, T = S.Q, S.R_ORDER, S.RR, S.T_PARAM

def facts(drv):
    K = consts.parse_consts(os.environ.get('SM9_REPO', '/repo'))
    out = []
    def fact(name, props, fn):
        try:
            ok = bool(fn())
            out.append((name, props, 'discharged' if ok else 'refuted', '' if ok else 'the closed term evaluates to false'))
        except KeyError as e:
            out.append((name, props, 'undecided', 'constant %s not found in the source' % e))
        except Exception as e:
            out.append((name, props, 'undecided', 'evaluation error %r' % (e,)))
    B64 = 1 << 64
    # ---- Montgomery constants
    fact('FQ_is_q', ['C06', 'C07', 'C13'], lambda: K['FQ'] == Q)
    fact('FR_is_r', ['C06', 'C07', 'C13'], lambda: K['FR'] == R)
    fact('q_r_from_t', ['C06'], lambda: Q == 36*T**4 + 36*T**3 + 24*T**2 + 6*T + 1 and R == 36*T**4 + 36*T**3 + 18*T**2 + 6*T + 1)
    fact('FQ_ONE_is_R_mod_q', ['C06', 'C07'], lambda: K['FQ_ONE'] == RR % Q)
    fact('FR_ONE_is_R_mod_r', ['C06', 'C07'], lambda: K['FR_ONE'] == RR % R)
    fact('FQ_SQUARED_is_R2_mod_q', ['C06', 'C13'], lambda: K['FQ_SQUARED'] == RR * RR % Q)
    fact('FR_SQUARED_is_R2_mod_r', ['C06', 'C13'], lambda: K['FR_SQUARED'] == RR * RR % R)
    fact('FQ_INV_is_minus_q_inverse_mod_2_64', ['C06', 'C12'], lambda: (K['FQ_INV'] * (Q % B64) + 1) % B64 == 0)
    fact('FR_INV_is_minus_r_inverse_mod_2_64', ['C06'], lambda: (K['FR_INV'] * (R % B64) + 1) % B64 == 0)
    fact('moduli_odd_and_2p_exceeds_R', ['C06', 'C07'], lambda: Q % 2 == 1 and R % 2 == 1 and 2 * Q > RR and 2 * R > RR and Q < RR and R < RR)
    # ---- square-root exponents (computed at run time from field operations: read from the real code)
    fact('q_is_5_mod_8', ['C14'], lambda: Q % 8 == 5)
    fact('two_is_a_non_residue_2_pow_half_is_minus_1', ['C14'], lambda: pow(2, (Q - 1) // 2, Q) == Q - 1)
    def sqrt_exps():
        a = drv.call('fq::to_slice', S.fq_enc((Q - 1) // 4))    # sanity of the encoding path
        return a[0] == 'ok'
    fact('driver_alive', ['C14'], sqrt_exps)
    # ---- tower: the three extensions are fields (irreducibility by Euler-type criteria, A2 for the step to "field")
    u = mk('Fq2', [0, 1])
    fact('minus_2_is_a_non_residue_mod_q', ['C12', 'C17', 'C14'], lambda: pow(Q - 2, (Q - 1) // 2, Q) == Q - 1)
    fact('u_is_a_non_square_in_Fq2', ['C17'], lambda: pow_num(S.NUM, 'Fq2', u, (Q * Q - 1) // 2) == mk('Fq2', [Q - 1, 0]))
    def v_noncube():
        v = mk('Fq4', [mk('Fq2', [0, 0]), mk('Fq2', [1, 0])])
        return (Q ** 4 - 1) % 3 == 0 and pow_num(S.NUM, 'Fq4', v, (Q ** 4 - 1) // 3) != S.tw_one('Fq4')
    fact('v_is_a_non_cube_in_Fq4', ['C17'], v_noncube)
    # ---- Frobenius constants of pairings.rs (twist Frobenius):  PI1 = u^((q-1)/6), PI2 = u^((q^2-1)/6), both in Fq
    fact('SM9_PI1_is_u_pow_(q-1)/6', ['C02', 'C17'], lambda: pow_num(S.NUM, 'Fq2', u, (Q - 1) // 6) == mk('Fq2', [K['SM9_PI1'], 0]))
    fact('SM9_PI2_is_u_pow_(q^2-1)/6', ['C02', 'C17'], lambda: pow_num(S.NUM, 'Fq2', u, (Q * Q - 1) // 6) == mk('Fq2', [K['SM9_PI2'], 0]))
    # ---- loop constants
    a = 6 * T + 2
    def digits():
        d = K['SM9_LOOP_COUNT']
        n = 1                                   # the Miller loop starts from T = Q, f = 1
        # the code squares first and then adds/subtracts according to the digit (1: +Q, 2: -Q)
        for x in d:
            n = 2 * n + (1 if x == 1 else -1 if x == 2 else 0)
        return n == a and all(x in (0, 1, 2) for x in d)
    fact('SM9_LOOP_COUNT_signed_digits_evaluate_to_6t+2', ['C02', 'C17'], digits)
    def partials():
        d = K['SM9_LOOP_COUNT']
        n = 1
        for x in d:
            m = 2 * n
            if not (1 < m % R < R - 1):
                return False
            n = m + (1 if x == 1 else -1 if x == 2 else 0)
            if x and not (1 < n % R < R - 1) and n != a:
                return False
            # chord T +- Q needs [2n]Q != -+Q, +-... : 2n != +-1 mod r
            if x and (m % R in (1, R - 1)):
                return False
        return True
    fact('all_partial_multiples_make_genuine_chords_and_tangents', ['C02'], partials)
    fact('SM9_LOOP_N_is_6t+2', ['C02', 'C03'], lambda: K['SM9_LOOP_N'] == a)
    fact('SM9_S_is_t', ['C17'], lambda: K['SM9_S'] == T)
    fact('SM9_A3_is_6t+5', ['C17'], lambda: K['SM9_A3'] == 6 * T + 5)
    fact('SM9_A2_is_6t^2+1', ['C17'], lambda: K['SM9_A2'] == 6 * T * T + 1)
    fact('SM9_NINE_is_9', ['C17'], lambda: K['SM9_NINE'] == 9)
    fact('6t+2_not_pm_q_mod_r', ['C02'], lambda: (a - Q) % R != 0 and (a + Q) % R != 0 and (a + Q - Q * Q) % R != 0 and (a + Q + Q * Q) % R != 0)
    fact('subfield_factors_vanish_(q^4-1)_divides_(q^12-1)/r', ['C02', 'C03', 'C17'], lambda: ((Q ** 12 - 1) // R) % (Q ** 4 - 1) == 0 and (Q ** 12 - 1) % R == 0)
    fact('r_divides_phi12(q)_exactly_once', ['C11', 'C17'], lambda: (Q ** 4 - Q ** 2 + 1) % R == 0 and ((Q ** 4 - Q ** 2 + 1) // R) % R != 0)
    # ---- curve constants and generators (read from the real code)
    def g1_consts():
        r = drv.call('g1::coeff_b')
        o = drv.call('g1::one')
        c = drv.call('g1::check_order')
        if r[0] != 'ok' or o[0] != 'ok' or c[0] != 'ok':
            return False
        X, Y, Z = S.g_dec('Fq', o[1][0])
        return S.fq_dec(r[1][0]) == 5 and (X, Y) == S.P1 and Z == 1 and c[1][0] == b'\x00'
    fact('G1_coeff_b_is_5_generator_is_P1_no_subgroup_check', ['C04', 'C09', 'C05'], g1_consts)
    def g2_consts():
        r = drv.call('g2::coeff_b')
        o = drv.call('g2::one')
        c = drv.call('g2::check_order')
        if r[0] != 'ok' or o[0] != 'ok' or c[0] != 'ok':
            return False
        X, Y, Z = S.g_dec('Fq2', o[1][0])
        return S.tw_dec('Fq2', r[1][0]) == mk('Fq2', [0, 5]) and (X, Y) == S.P2 and Z == S.tw_one('Fq2') and c[1][0] == b'\x01'
    fact('G2_coeff_b_is_5u_generator_is_P2_subgroup_check_on', ['C04', 'C09', 'C05'], g2_consts)
    fact('P1_on_curve_of_order_r', ['C05', 'C09'], lambda: S.G1C.on_curve(S.P1) and S.G1C.mul(R, S.P1) is None)
    fact('P2_on_twist_of_order_r', ['C05', 'C09'], lambda: S.G2C.on_curve(S.P2) and S.G2C.mul(R, S.P2) is None)
    def real_orders():
        k = S.be(S.mont(R - 1, R))
        for g, ty in (('g1', 'Fq'), ('g2', 'Fq2')):
            o = drv.call(g + '::one')[1][0]
            m = drv.call(g + '::mul', o, k)
            s = drv.call(g + '::add', m[1][0], o)
            z = drv.call(g + '::is_zero', s[1][0])
            z1 = drv.call(g + '::is_zero', o)
            if z[1][0] != b'\x01' or z1[1][0] != b'\x00':
                return False
        return True
    fact('real_code_[r-1]G+G_is_identity_for_both_generators', ['C05', 'C01'], real_orders)
    # ---- no 2-torsion (A4 consequence used by the group-law obligations): x^3 + b has no root
    fact('minus_5_is_not_a_cube_in_Fq', ['C04', 'C15'], lambda: (Q - 1) % 3 == 0 and pow(Q - 5, (Q - 1) // 3, Q) != 1)
    def twist_no_2torsion():
        m5u = mk('Fq2', [0, Q - 5])
        return (Q * Q - 1) % 3 == 0 and pow_num(S.NUM, 'Fq2', m5u, (Q * Q - 1) // 3) != S.tw_one('Fq2')
    fact('minus_5u_is_not_a_cube_in_Fq2', ['C04', 'C15'], twist_no_2torsion)
    fact('twist_order_is_r_times_odd_cofactor_coprime_to_r', ['C09'], lambda: (2 * Q - R) % 2 == 1 and (2 * Q - R) % R != 0 and (2 * Q - R) % 13 == 0 and (2 * Q - R) % 1621 == 0)
    return out
