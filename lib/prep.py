"""Tree hashing, scratch copies, rustc dumps (MIR / expanded), result cache.

Everything is rebuilt from /repo's *current working tree*; results are cached under
/verif/.cache/trees/<sha256 of src/**, Cargo.toml, Cargo.lock> so that the checks of one
run share the work while any edit of the tree invalidates it.  Scratch copies live under
/tmp and are removed as soon as the dump has been taken.
"""
import os, hashlib, subprocess, shutil, json, fcntl, time

VERIF = os.path.dirname(os.path.dirname(os.path.abspath(__file__)))
REPO = os.environ.get('SM9_REPO', '/repo')
CACHE = os.path.join(VERIF, '.cache')

class BuildError(Exception):
    pass

def tree_files():
    out = []
    for root, dirs, files in os.walk(os.path.join(REPO, 'src')):
        dirs.sort()
        for f in sorted(files):
            out.append(os.path.join(root, f))
    for f in ('Cargo.toml', 'Cargo.lock'):
        p = os.path.join(REPO, f)
        if os.path.exists(p):
            out.append(p)
    return out

def tree_hash():
    h = hashlib.sha256()
    for p in tree_files():
        h.update(os.path.relpath(p, REPO).encode())
        h.update(b'\0')
        with open(p, 'rb') as fh:
            h.update(fh.read())
        h.update(b'\0')
    # the machinery itself is part of the key: a changed contract must not reuse old verdicts
    for sub in ('mirvc', 'lib', 'kani', 'verus', 'spec', 'replay/src'):
        d = os.path.join(VERIF, sub)
        for root, dirs, files in os.walk(d):
            dirs[:] = sorted(x for x in dirs if x not in ('__pycache__', 'dev'))   # verus/dev holds authoring copies only
            for f in sorted(files):
                if f.endswith(('.pyc',)):
                    continue
                with open(os.path.join(root, f), 'rb') as fh:
                    h.update(fh.read())
    return h.hexdigest()[:24]

class Ctx:
    def __init__(self, tier='quick', seed=0):
        self.tier = tier
        self.seed = seed
        self.hash = tree_hash()
        self.dir = os.path.join(CACHE, 'trees', self.hash)
        os.makedirs(os.path.join(self.dir, 'tasks'), exist_ok=True)
        self._prune()

    def _prune(self, keep=6):
        base = os.path.join(CACHE, 'trees')
        try:
            ds = sorted((os.path.getmtime(os.path.join(base, d)), d) for d in os.listdir(base))
        except OSError:
            return
        for _, d in ds[:-keep]:
            if d != self.hash:
                shutil.rmtree(os.path.join(base, d), ignore_errors=True)

    def lock(self, name):
        os.makedirs(CACHE, exist_ok=True)
        fh = open(os.path.join(CACHE, name + '.lock'), 'w')
        fcntl.flock(fh, fcntl.LOCK_EX)
        return fh

    # ---------------------------------------------------------------- scratch copies
    def scratch_copy(self, name):
        d = '/tmp/sm9v_%s' % name
        os.makedirs(d, exist_ok=True)
        dst = os.path.join(d, 'repo')
        subprocess.run(['rsync', '-a', '--delete', '--exclude', 'target', '--exclude', '.git', REPO + '/', dst + '/'], check=True)
        return dst

    def rustc_dump(self, kind):
        """kind in {'mir','expanded'}"""
        out = os.path.join(self.dir, kind + '.txt')
        if os.path.exists(out):
            return out
        with self.lock('rustc_dump'):
            if os.path.exists(out):
                return out
            dst = self.scratch_copy('dump')
            env = dict(os.environ)
            env['CARGO_TARGET_DIR'] = os.path.join(CACHE, 'target_dump')
            env['CARGO_NET_OFFLINE'] = 'true'
            try:
                p = subprocess.run(['cargo', '+nightly', 'rustc', '--offline', '--lib', '--', '-Zunpretty=' + kind],
                                   cwd=dst, env=env, capture_output=True, text=True, timeout=1200)
                if p.returncode != 0:
                    raise BuildError('rustc -Zunpretty=%s failed:\n%s' % (kind, p.stderr[-3000:]))
                tmp = out + '.tmp%d' % os.getpid()
                with open(tmp, 'w') as fh:
                    fh.write(p.stdout)
                os.replace(tmp, out)
            finally:
                shutil.rmtree('/tmp/sm9v_dump', ignore_errors=True)
        return out

    # ---------------------------------------------------------------- task cache
    def task_path(self, name):
        safe = name.replace('/', '_').replace(':', '_')
        return os.path.join(self.dir, 'tasks', safe + '.json')

    def cached(self, name):
        p = self.task_path(name)
        if os.path.exists(p):
            try:
                return json.load(open(p))
            except Exception:
                return None
        return None

    def store(self, name, obj):
        p = self.task_path(name)
        tmp = p + '.tmp%d' % os.getpid()
        with open(tmp, 'w') as fh:
            json.dump(obj, fh)
        os.replace(tmp, p)
