"""check --replay <file>: re-run a recorded violation against the real crate (current tree)."""
import json, os, sys, os
HERE = os.path.dirname(os.path.abspath(__file__))
sys.path.insert(0, HERE)

def replay_file(path):
    d = json.load(open(path))
    r = d.get('replay')
    print('property   : %s' % d.get('property'))
    print('obligation : %s' % d.get('obligation'))
    if not r:
        print('no concrete failing input recorded; verifier output:')
        print(str(d.get('verifier_output'))[:2000])
        return 1
    import driver
    if r.get('kind') == 'hook':
        drv = driver.Driver(r.get('profile', 'debug'))
        res = drv.call(r['hook'], *[bytes.fromhex(a) for a in r['args']])
        drv.close()
        print('function   : %s' % r['hook'])
        print('inputs     : %s' % ' '.join(r['args'])[:1000])
        print('spec demands: %s' % str(r['expected'])[:800])
        if res[0] == 'ok':
            print('real code  : ok %s' % ' '.join(x.hex() for x in res[1])[:800])
        else:
            print('real code  : %s' % ' '.join(res))
        print('recorded   : %s' % str(r['observed'])[:800])
        same = False
        if res[0] == 'ok':
            joined = ' '.join(x.hex() for x in res[1])
            same = str(r['expected']).replace('Some(', '').replace(')', '') in joined
        print('REPRODUCED' if not same else 'NOT REPRODUCED (the current tree returns what the spec demands)')
        return 1 if not same else 0
    if r.get('kind') == 'kani':
        # re-run Kani's counterexample natively on the real code of the CURRENT tree (harness = real functions + assertion)
        import tasks, prep
        ctx = prep.Ctx()
        with ctx.lock('kani'):
            dst = tasks.kani_scratch(ctx)
            env = dict(os.environ)
            env['CARGO_TARGET_DIR'] = os.path.join(prep.CACHE, 'target_kani')
            env['CARGO_NET_OFFLINE'] = 'true'
            pb = tasks.kani_playback(dst, env, r['harness'], vals=r['concrete_vals'])
        print('harness    : %s (kani/harness.rs; it calls the real functions and asserts their contract)' % r['harness'])
        print('inputs     : kani::any() values %s' % r['concrete_vals'])
        print('CBMC said  : %s' % str(r.get('failed_checks'))[:600])
        print('real code  : %s' % pb['output'][:800])
        print('REPRODUCED' if pb['confirmed'] else 'NOT REPRODUCED (the harness passes on the current tree with these values)')
        return 1 if pb['confirmed'] else 0
    print('unknown replay kind')
    return 2
