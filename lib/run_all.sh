#!/bin/sh
# run every claimed check (quick tier) on the current tree and validate the evidence files; used before committing
cd /verif
rc=0
for p in $(python3 -c "import json; print(' '.join(c['property_id'] for c in json.load(open('MANIFEST.json'))['checks']))"); do
  ./check $p --tier ${1:-quick} > /tmp/runall_$p.log 2>&1; r=$?
  tail -1 /tmp/runall_$p.log
  [ $r -ne 0 ] && { rc=1; grep -E "VIOLATION|UNDECIDED" /tmp/runall_$p.log | head -5; }
done
python3-vt - <<'PY'
import json, jsonschema, glob
s=json.load(open('/root/.vp/EVIDENCE.schema.json'))
m=json.load(open('/verif/MANIFEST.json'))
jsonschema.validate(m, json.load(open('/root/.vp/MANIFEST.schema.json')))
for c in m['checks']:
    e=json.load(open(c['evidence_file'])); jsonschema.validate(e,s)
    cov=e['coverage']
    assert cov['obligations']==cov['discharged'] and cov['obligations']>0, (c['property_id'], cov['obligations'], cov['discharged'])
print('manifest + %d evidence files valid' % len(m['checks']))
PY
exit $rc
