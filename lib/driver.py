"""Build and talk to the replay driver (real crate, built from /repo's working tree with hooks on)."""
import os, subprocess, threading

VERIF = os.path.dirname(os.path.dirname(os.path.abspath(__file__)))
TARGET = os.path.join(VERIF, '.cache', 'target_replay')

class BuildError(Exception):
    pass

def build(profile='debug'):
    env = dict(os.environ)
    env['RUSTFLAGS'] = '--cfg john_yu_sm9_core_verif'
    env['CARGO_TARGET_DIR'] = TARGET
    env['CARGO_NET_OFFLINE'] = 'true'
    cmd = ['cargo', 'build', '--offline', '--quiet']
    if profile == 'release':
        cmd.append('--release')
    lock = os.path.join(VERIF, 'replay', 'Cargo.lock')
    if os.path.exists('/repo/Cargo.lock'):
        try:
            import shutil
            shutil.copy('/repo/Cargo.lock', lock)
        except OSError:
            pass
    p = subprocess.run(cmd, cwd=os.path.join(VERIF, 'replay'), env=env, capture_output=True, text=True)
    if p.returncode != 0:
        raise BuildError(p.stderr[-3000:])
    return os.path.join(TARGET, profile, 'sm9_replay')

class Driver:
    def __init__(self, profile='debug'):
        self.profile = profile
        self.exe = build(profile)
        self.p = None
        self.calls = 0

    def start(self):
        self.p = subprocess.Popen([self.exe], stdin=subprocess.PIPE, stdout=subprocess.PIPE, text=True, bufsize=1)

    def call(self, fn, *args):
        """args: bytes objects; returns ('ok', [bytes...]) | ('panic', msg) | ('unknown',)"""
        if self.p is None or self.p.poll() is not None:
            self.start()
        line = fn + ''.join(' ' + (a.hex() if len(a) else '-') for a in args) + '\n'
        self.p.stdin.write(line)
        self.p.stdin.flush()
        out = self.p.stdout.readline()
        self.calls += 1
        if not out:
            # the process died (abort / stack overflow): report as a crash
            rc = self.p.poll()
            self.p = None
            return ('panic', 'driver process died (rc=%s)' % rc)
        out = out.rstrip('\n')
        if out.startswith('ok'):
            parts = out.split(' ')[1:]
            return ('ok', [bytes.fromhex(x) if x != '-' else b'' for x in parts])
        if out.startswith('panic'):
            return ('panic', out[6:])
        return ('unknown',)

    def batch(self, reqs):
        """reqs: list of (fn, [bytes...]); pipelined for speed"""
        if self.p is None or self.p.poll() is not None:
            self.start()
        lines = []
        for fn, args in reqs:
            lines.append(fn + ''.join(' ' + (a.hex() if len(a) else '-') for a in args))
        res = []
        def writer():
            try:
                self.p.stdin.write('\n'.join(lines) + '\n')
                self.p.stdin.flush()
            except BrokenPipeError:
                pass
        t = threading.Thread(target=writer)
        t.start()
        for _ in reqs:
            out = self.p.stdout.readline()
            self.calls += 1
            if not out:
                res.append(('panic', 'driver process died'))
                self.p = None
                break
            out = out.rstrip('\n')
            if out.startswith('ok'):
                parts = out.split(' ')[1:]
                res.append(('ok', [bytes.fromhex(x) if x != '-' else b'' for x in parts]))
            elif out.startswith('panic'):
                res.append(('panic', out[6:]))
            else:
                res.append(('unknown',))
        t.join()
        while len(res) < len(reqs):
            res.append(('panic', 'driver process died'))
        return res

    def close(self):
        if self.p is not None:
            try:
                self.p.stdin.close()
                self.p.wait(timeout=5)
            except Exception:
                self.p.kill()
            self.p = None


class DualDriver:
    """sends every request to the dev-profile (debug assertions + overflow checks) and the release build and records any
    request whose replies differ (C18)"""
    profile = 'debug+release'

    def __init__(self):
        self.a = Driver('debug')
        self.b = Driver('release')
        self.diffs = []
        self.calls = 0

    def call(self, fn, *args):
        ra = self.a.call(fn, *args)
        rb = self.b.call(fn, *args)
        self.calls += 1
        if ra != rb:
            self.diffs.append((fn, list(args), ra, rb))
        return ra

    def batch(self, reqs):
        ra = self.a.batch(reqs)
        rb = self.b.batch(reqs)
        self.calls += len(reqs)
        for rq, x, y in zip(reqs, ra, rb):
            if x != y and len(self.diffs) < 50:
                self.diffs.append((rq[0], list(rq[1]), x, y))
        return ra

    def close(self):
        self.a.close()
        self.b.close()
