"""Task registry: every task turns the current tree into obligations (with verdicts),
concrete violations (failing input reproduced on the real code) and search statistics.
Results are cached per tree hash (prep.Ctx) so properties that share a task share its cost."""
import os, sys, json, time, importlib, subprocess, traceback
HERE = os.path.dirname(os.path.abspath(__file__))
VERIF = os.path.dirname(HERE)
import prep

_drivers = {}

def get_driver(profile='debug'):
    import driver
    if profile not in _drivers:
        _drivers[profile] = driver.Driver(profile)
    return _drivers[profile]

_mir_cache = {}

def load_mir(ctx):
    import mirparse
    path = ctx.rustc_dump('mir')
    if path in _mir_cache:
        return _mir_cache[path]
    fs = mirparse.parse_mir(open(path).read())
    out = {}
    for n, f in fs.items():
        if 'tests::' in n or 'integration_test' in n or 'verif_hooks' in n:
            continue
        f.key = mirparse.norm_key(f)
        out[n] = f
    _mir_cache[path] = out
    return out

def run_task(ctx, name):
    # searches (and everything that imports their results) depend on VERIF_SEED; proofs do not
    seeded = name.split(':')[0] in ('search', 'gsearch', 'lsearch', 'csearch', 'psearch', 'pairsearch', 'rsearch', 'handover', 'mirvc')
    key = name + ('@%s' % ctx.tier) + ('#%d' % ctx.seed if seeded else '')
    c = ctx.cached(key)
    if c is not None:
        return c
    kind, _, arg = name.partition(':')
    t0 = time.time()
    fn = globals().get('task_' + kind)
    if fn is None:
        raise KeyError('unknown task kind ' + kind)
    r = fn(ctx, arg)
    r['seconds'] = round(time.time() - t0, 2)
    ctx.store(key, r)
    return r

# ---------------------------------------------------------------------------------------------
# Helper contracts that are STRONGER than any property statement (they pin the Jacobian representative, which the group
# properties leave free).  They exist because the line-function proofs of C02 call the group operations through these
# exact contracts.  They are attached only to the properties whose proofs depend on them, and a failure is reported as
# UNDECIDED (the dependants can no longer be decided), never as a violation: the property itself may still hold.
AUX_CLAUSES = {'z_is_z1_h': ['C02'], 'z_is_2yz': ['C02'], 'same_x_z_negated_y': ['C02'], 'exact_identity_0_1_0': ['C02', 'C05', 'C16']}

def task_mirvc(ctx, module):
    import vc
    funcs = load_mir(ctx)
    mod = importlib.import_module(module)
    obligations = []
    violations = []
    for spec in (mod.build(funcs) if hasattr(mod, 'build') else mod.SPECS):
        r = vc.verify_function(funcs, spec, seed=ctx.seed)
        real_refuted = False
        for o in r.obligations:
            clause = o['id'].rsplit('/', 1)[-1]
            st, detail, oprops = o['status'], o['detail'], list(spec.prop)
            if clause in AUX_CLAUSES:
                oprops = list(AUX_CLAUSES[clause])
                if st in ('refuted', 'failed'):
                    st = 'undecided'
                    detail = 'helper contract (exact representative, stronger than the property) no longer holds; proofs that call this function through it cannot be decided: ' + str(detail)
            elif st == 'refuted':
                real_refuted = True
            obligations.append(dict(id='mirvc/' + o['id'], status=st, detail=detail, seconds=o['seconds'],
                                    engine='E3 mirvc (WP over rustc MIR)', backend='ring normaliser + nu-elimination (mirvc/facts.py); sympy factorisation re-checked by multiplication',
                                    function=spec.fid, props=oprops, cex=o.get('cex'), aux=clause in AUX_CLAUSES))
        if r.status == 'refuted' and real_refuted and spec.hook:
            # attach a concrete failing input on the real code
            try:
                import search
                v = None
                # first the verifier's own counterexample (witness of the failed path), then the directed search
                for o in r.obligations:
                    w = o.get('cex') or {}
                    if o['status'] == 'refuted' and w.get('args') is not None:
                        v = search.check_case(get_driver(), spec, w['args'])
                        if v:
                            v['source'] = 'mirvc path witness'
                            break
                if v is None:
                    n, v = search.search_spec(get_driver(), spec, ctx.seed, nrand=32, max_cases=600)
                if v:
                    violations.append(dict(obligation='mirvc/' + spec.fid, props=list(spec.prop), summary='%s(%s...) expected %s observed %s' % (
                        v['hook'], ','.join(a[:16] for a in v['args']), str(v['expected'])[:40], str(v['observed'])[:40]),
                        replay=dict(kind='hook', **v), input_class=v['failure']))
            except Exception as e:
                obligations.append(dict(id='mirvc/%s/replay' % spec.fid, status='undecided', detail='replay search failed: %r' % (e,),
                                        seconds=0, engine='replay', function=spec.fid, props=list(spec.prop)))
    return dict(obligations=obligations, violations=violations)

def task_search(ctx, module):
    """contract-directed counterexample search on the real code for every spec of a module that has a hook"""
    import search
    mod = importlib.import_module(module)
    drv = get_driver()
    violations = []
    searches = []
    nr = 24 if ctx.tier == 'quick' else 200
    mc = 300 if ctx.tier == 'quick' else 3000
    for spec in mod.SPECS:
        if not spec.hook or spec.oracle is None:
            continue
        t = time.time()
        n, v = search.search_spec(drv, spec, ctx.seed, nrand=nr, max_cases=mc)
        searches.append(dict(name='search/' + spec.fid, cases=n, seconds=round(time.time() - t, 3), props=list(spec.prop)))
        if v:
            violations.append(dict(obligation='mirvc/' + spec.fid, props=list(spec.prop), summary='%s(%s...) expected %s observed %s' % (
                v['hook'], ','.join(a[:16] for a in v['args']), str(v['expected'])[:40], str(v['observed'])[:40]),
                replay=dict(kind='hook', **v), input_class=v['failure']))
    return dict(violations=violations, searches=searches)

def task_gsearch(ctx, arg):
    """group-law search on the real code (G1 and G2) against the affine chord-and-tangent law"""
    import search_groups
    prof = 'release' if arg == 'release' else 'debug'
    drv = get_driver(prof)
    t = time.time()
    stats, viols = search_groups.search(drv, ctx.seed, ctx.tier)
    for v in viols:
        v['profile'] = prof
    PROP = {'add': ['C04', 'C16'], 'sub': ['C04', 'C16'], 'neg': ['C04', 'C16'], 'double': ['C04'], 'add_assign': ['C04'], 'eq': ['C15', 'C16'], 'to_affine': ['C15', 'C10'],
            'is_zero': ['C15'], 'mul': ['C05', 'C16'], 'affine_new': ['C09']}
    PROP.update({'g1_add': ['C04'], 'g2_add': ['C04'], 'g1_sub': ['C04'], 'g2_sub': ['C04'], 'g1_neg': ['C04'], 'g2_neg': ['C04'],
                 'g1_mul': ['C05'], 'g2_mul': ['C05'], 'g1_scalar*point': ['C05'], 'g2_scalar*point': ['C05'], 'g1_normalize': ['C15'], 'g2_normalize': ['C15'],
                 'g1_is_zero': ['C15'], 'g2_is_zero': ['C15'], 'g1_eq': ['C15'], 'g2_eq': ['C15'], 'wrappers': ['C04', 'C05', 'C15'], 'g1_wrappers': ['C04', 'C05', 'C15'], 'g2_wrappers': ['C04', 'C05', 'C15']})
    violations = []
    seen = set()
    for v in viols:
        op = v['fid'].split('::')[-1]
        if (v['fid'], v['failure']) in seen:
            continue
        seen.add((v['fid'], v['failure']))
        violations.append(dict(obligation='mirvc/' + v['fid'], props=sorted(set(PROP.get(op, ['C04']) + ['C16'])), summary='%s(%s...) expected %s observed %s' % (
            v['hook'], ','.join(a[:16] for a in v['args']), str(v['expected'])[:40], str(v['observed'])[:40]),
            replay=dict(kind='hook', **v), input_class=v['failure']))
    searches = []
    for k, n in sorted(stats.items()):
        op = k.split('::')[-1]
        searches.append(dict(name='gsearch/' + k, cases=n, seconds=round(time.time() - t, 2), props=sorted(set(PROP.get(op if op != 'add_ref' else 'add', ['C04']) + ['C16']))))
    return dict(violations=violations, searches=searches)

def limb_props(fid):
    f = fid.split('::')[-1]
    if fid.startswith('lib::fq2') or fid == 'lib::fq_is_even':
        return ['C12', 'C10']
    if fid.startswith('fq2::') or 'sum_of_products' in fid:
        return ['C12', 'C14'] if 'sqrt' in fid else ['C12']
    if 'sqrt' in fid:
        return ['C14']
    if f in ('bits', 'bits_without_leading_zeros'):
        return ['C05', 'C06', 'C13']
    if fid.startswith('lib::') or fid.startswith('u512::') or f in ('new', 'new_mul_factor', 'from_slice', 'to_slice', 'interpret', 'from_str', 'from_hash',
                                                                     'to_big_endian', 'set_bit', 'get_bit', 'into_u256', 'bits', 'bits_without_leading_zeros'):
        return ['C13', 'C07']
    return ['C06', 'C07']

def task_lsearch(ctx, arg):
    """limb / prime-field / conversion search on the real code against exact integer arithmetic"""
    import search_limbs
    prof = 'release' if arg == 'release' else 'debug'
    drv = get_driver(prof)
    t = time.time()
    stats, viols = search_limbs.search(drv, ctx.seed, ctx.tier)
    for v in viols:
        v['profile'] = prof
    violations = []
    for v in viols:
        violations.append(dict(obligation='limbs/' + v['fid'], props=limb_props(v['fid']), summary='%s(%s...) expected %s observed %s' % (
            v['hook'], ','.join(a[:16] for a in v['args'][:4]), str(v['expected'])[:48], str(v['observed'])[:48]),
            replay=dict(kind='hook', **v), input_class=v['failure']))
    searches = [dict(name='lsearch/' + k, cases=n, seconds=round(time.time() - t, 2), props=limb_props(k)) for k, n in sorted(stats.items())]
    return dict(violations=violations, searches=searches)

def task_csearch(ctx, arg):
    """encoder / decoder search on the real public API (all six decoders, all six encoders)"""
    import search_codec
    drv = get_driver(arg if arg in ('debug', 'release') else 'debug')
    t = time.time()
    stats, viols = search_codec.search(drv, ctx.seed, ctx.tier)
    for v in viols:
        v.setdefault('profile', drv.profile)
    def props(v):
        if 'encode' in v['fid'] or '_to_' in v['fid']:
            return ['C10', 'C16']      # C16: encode/decode round trips are part of every history
        p = ['C08', 'C16']
        if not any(t in v['failure'] for t in ('short', 'long', 'shift', 'prefix')):
            p.append('C09')      # the accept / reject decision on a well-framed string is the validated constructor's
        if 'valid' in v['failure'] or 'roundtrip' in v['failure']:
            p.append('C10')
        if 'random-x' in v['failure'] or 'rejects' in v['failure']:
            p.append('C14')
        if 'panic' in v['failure']:
            p.append('C18')
        return p
    violations = [dict(obligation='codec/' + v['fid'], props=props(v), summary='%s(%s...) expected %s observed %s [%s]' % (
        v['hook'], v['args'][0][:40], str(v['expected'])[:40], str(v['observed'])[:40], v['failure']),
        replay=dict(kind='hook', profile=drv.profile, **v), input_class=v['failure']) for v in viols]
    searches = [dict(name='csearch/' + k, cases=n, seconds=round(time.time() - t, 2),
                     props=['C10'] if 'encode' in k else ['C08', 'C09', 'C10', 'C14', 'C18']) for k, n in sorted(stats.items())]
    return dict(violations=violations, searches=searches)

def task_psearch(ctx, arg):
    """profile independence on the real code: every request of the limb / codec / group searches is executed by the
    dev build (debug assertions, overflow checks) and by the release build; any differing reply or panic is a C18 violation"""
    import driver, search_limbs, search_codec, search_groups
    dd = driver.DualDriver()
    t = time.time()
    n = 0
    stats_all = {}
    for mod in (search_limbs, search_codec, search_groups):
        st, _ = mod.search(dd, ctx.seed, ctx.tier)
        for k, v in st.items():
            stats_all[mod.__name__ + '/' + k] = v
    violations = []
    seen = set()
    for fn, args, ra, rb in dd.diffs:
        if fn in seen:
            continue
        seen.add(fn)
        def show(r):
            return ' '.join(x.hex() if isinstance(x, (bytes, bytearray)) else str(x) for x in (r[1] if r[0] == 'ok' else r[1:]))[:120] if r[0] != 'ok' else 'ok ' + ' '.join(x.hex() for x in r[1])[:120]
        violations.append(dict(obligation='profile/' + fn, props=['C18'], summary='%s: dev build -> %s ; release build -> %s' % (fn, show(ra), show(rb)),
                               replay=dict(kind='hook', hook=fn, args=[a.hex() for a in args], expected='release: ' + show(rb), observed='dev: ' + show(ra), failure='profile-difference', profile='debug'),
                               input_class='profile-difference'))
    dd.close()
    searches = [dict(name='psearch/both-profiles', cases=dd.calls, seconds=round(time.time() - t, 2), props=['C18'])]
    return dict(violations=violations, searches=searches)

def task_ground(ctx, arg):
    import ground
    drv = get_driver()
    obligations = []
    t = time.time()
    for name, props, status, detail in ground.facts(drv):
        obligations.append(dict(id='ground/' + name, status=status, detail=detail, seconds=0.0, engine='ground evaluation of closed terms',
                                backend='exact integer / finite-field arithmetic (Python); constants parsed from the current source', function='constants', props=props))
    return dict(obligations=obligations)

def task_pairsearch(ctx, arg):
    """pairing entry points on the real code vs an independent textbook R-ate pairing (spec/sm9spec.py)"""
    import search_pairing
    t = time.time()
    stats, viols = search_pairing.search(get_driver(), ctx.seed, ctx.tier)
    # the optimised build as well (a normalisation hidden in a debug_assert! only disappears there)
    st2, viols2 = search_pairing.search(get_driver('release'), ctx.seed, ctx.tier)
    for v in viols2:
        v['profile'] = 'release'
        v['failure'] = v['failure'] + '@release'
    for k, n in st2.items():
        stats[k + '@release'] = n
    key = lambda v: (v['fid'], tuple(v['args']), v['failure'].replace('@release', ''))
    only_one = set(key(v) for v in viols) ^ set(key(v) for v in viols2)
    viols = viols + viols2
    def props(v):
        p = props0(v)
        if key(v) in only_one or 'panic' in v['failure']:
            p = p + ['C18']      # the two build profiles disagree (or a check fires) on this input
        return p
    def props0(v):
        if v['fid'].startswith('gt::') or v['fid'].startswith('lib::gt_'):
            return ['C11', 'C01'] if 'pow' in v['fid'] else ['C11']
        if v['failure'].startswith('identity') or v['failure'].startswith('panic'):
            return ['C01', 'C03', 'C16']
        if 'reuse' in v['failure']:
            return ['C03']
        return ['C02', 'C03', 'C01', 'C16']
    violations = [dict(obligation='pairing/' + v['fid'], props=props(v), summary='%s expected %s observed %s [%s]' % (
        v['hook'], str(v['expected'])[:40], str(v['observed'])[:40], v['failure']),
        replay=dict(kind='hook', **v), input_class=v['failure']) for v in viols]
    searches = [dict(name='pairsearch/' + k, cases=n, seconds=round(time.time() - t, 2),
                     props=['C11', 'C01'] if k.startswith('gt::') else ['C01', 'C02', 'C03', 'C16']) for k, n in sorted(stats.items())]
    return dict(violations=violations, searches=searches)

# ---------------------------------------------------------------------------------------------
# E1: Verus on the mechanically extracted text of the limb layer
VERUS_PROPS = {'divrem': ['C06', 'C07', 'C12', 'C13', 'C18'], 'invr': ['C06', 'C07', 'C13', 'C18'], 'inv': ['C06', 'C07', 'C12', 'C13'], 'fp': ['C06', 'C07', 'C12', 'C13'], 'fpr': ['C06', 'C07', 'C13'],
               'mul': ['C06', 'C07', 'C12', 'C13'], 'sop': ['C06', 'C07', 'C12', 'C13'], 'square': ['C06', 'C07', 'C12']}

# ---------------------------------------------------------------------------------------------
# termination of the RNG-facing constructors (C07 "every value obtainable ... from an RNG stream"): a structural contract on MIR
TERM_CHAIN = [
    # (obligation name, MIR function regex (normalised name), file, allowed callees)
    ('lib::Fr::random', r'^<impl>::random$', 'src/lib.rs', [r'^<fields::fp::Fr as FieldElement>::random']),
    ('fp::FieldElement::random', r'<impl>::random$', 'src/fields/fp.rs', [r'^U256::random', r'^<F[RQ] as Deref>::deref$']),
    ('u256::U256::random', r'<impl>::random$', 'src/u256.rs', [r'^U512::random', r'^U512::divrem$']),
    ('u512::U512::random', r'<impl>::random$', 'src/u512.rs', [r'^<R as Rng>::gen', r'^rand::Rng::gen', r'^U512$', r'^ark_ff::BigInt']),
]

def task_term(ctx, arg):
    """`Fr::random` returns after finitely many RNG calls for EVERY RNG stream: every function on its call chain is loop-free
    (no back edge in its MIR control-flow graph) and calls only the next link, `U512::divrem` (terminates: E1 `decreases`) and
    the RNG itself (each `gen` call returns: A10)."""
    import mirparse, re
    funcs = load_mir(ctx)
    obligations = []
    base = dict(engine='E3 mirvc (structural contract on rustc MIR)', backend='control-flow graph back-edge search', props=['C07'], seconds=0.0)
    for name, pat, file, allowed in TERM_CHAIN:
        hits = [f for f in funcs.values() if mirparse.norm_key(f)[0] == file and re.search(pat, mirparse.norm_key(f)[1])]
        if not hits:
            obligations.append(dict(base, id='term/%s/loop_free' % name, function=name, status='undecided', detail='function not found in the MIR dump (lost anchor)'))
            continue
        for k, f in enumerate(hits):
            suffix = '' if len(hits) == 1 else '#%d' % k
            lp = mirparse.loops(f)
            obligations.append(dict(base, id='term/%s%s/loop_free' % (name, suffix), function=name, status='discharged' if not lp else 'undecided',
                                    detail='no back edge in the MIR control-flow graph' if not lp else
                                    'the function now contains a loop (back edge to bb%s): it no longer returns after a bounded number of RNG calls for every stream' % sorted(lp)[0]))
            callees = sorted(set(t[2] for _, (_, t) in f.blocks.items() if t[0] == 'call' and isinstance(t[2], str)))
            other = [c for c in callees if not any(re.search(a, c) for a in allowed)]
            obligations.append(dict(base, id='term/%s%s/callees' % (name, suffix), function=name, status='discharged' if not other else 'undecided',
                                    detail='calls only: %s' % ', '.join(callees) if not other else 'calls functions outside the verified chain: %s' % ', '.join(other)))
    return dict(obligations=obligations)

def task_rsearch(ctx, arg):
    """Fr::random on exact RNG byte streams (constant, modulus-shaped, random): terminates, canonical (C07)"""
    import search_rng
    drv = get_driver()
    t = time.time()
    st, viols = search_rng.search(drv, ctx.seed, ctx.tier)
    violations = [dict(obligation='rng/' + v['fid'], props=['C07'], summary='%s(stream %s...) expected %s observed %s [%s]' % (
        v['hook'], v['args'][0][:24], str(v['expected'])[:50], str(v['observed'])[:60], v['failure']),
        replay=dict(kind='hook', **v), input_class=v['failure']) for v in viols]
    return dict(violations=violations, searches=[dict(name='rsearch/Fr::random', cases=st['cases'], seconds=round(time.time() - t, 2), props=['C07'])])

HANDOVER_LAYERS = {
    # layer -> (tasks whose refutations are imported, description)
    'limbs': (['verus:divrem', 'verus:invr', 'kani:limbs_linear', 'kani:field_linear', 'lsearch:all', 'lsearch:release'], 'Fq/Fr ring-operation contracts (E1 Verus chains + E2 field-level Kani; decided under C06/C07/C12/C13)'),
    'tower': (['mirvc:specs_tower', 'search:specs_tower'], 'Fq2/Fq4/Fq12 operation contracts (E3 obligations of fq2.rs / fq4.rs / fq12.rs; decided under C12/C17)'),
    'groups': (['mirvc:specs_groups', 'gsearch:all', 'gsearch:release'], 'group-law contracts of G<P> (E3 obligations of groups.rs; decided under C04/C15/C09)'),
}

def task_handover(ctx, arg):
    """Hand-over for properties above a layer: their proofs call the layer below through contracts whose proofs are that
    layer's own obligations (listed under the properties that own them).  Those obligations are not re-counted here; what
    is imported is their REFUTATION: if one of them fails on the current tree - or its search finds a failing input -
    the contract the upper-layer proof rests on is false and this property is reported violated too.  An undecided lower
    layer leaves the stated hand-over assumption in place (it is decided under its own properties)."""
    tasks_, what = HANDOVER_LAYERS[arg]
    failed, undec, n = [], [], 0
    violations = []
    for t in tasks_:
        r = run_task(ctx, t)
        for o in r.get('obligations', []):
            if o.get('aux'):
                continue
            n += 1
            if o['status'] in ('failed', 'refuted'):
                failed.append(o)
            elif o['status'] != 'discharged':
                undec.append(o['id'])
        for v in r.get('violations', []):
            violations.append(dict(v))
    base = dict(engine='hand-over of the %s layer (results of this run)' % arg, backend='as in the imported obligations', seconds=0.0, function=what.split(' (')[0])
    obligations = [dict(base, id='handover/%s_contracts_not_refuted' % arg, status='failed' if (failed or violations) else 'discharged',
                        detail=('refuted: ' + ', '.join([o['id'] for o in failed[:6]] + [str(v.get('obligation')) for v in violations[:4]])) if (failed or violations) else
                               '%s: %d obligations consulted, none refuted%s' % (what, n, ('; undecided (hand-over assumption stays): ' + ', '.join(undec[:5])) if undec else ''))]
    for o in failed:
        obligations.append(dict(o, id='handover/' + o['id']))
    for o in obligations:
        o.pop('props', None)
    for v in violations:
        v.pop('props', None)
    return dict(obligations=obligations, violations=violations)

# functions of the Verus chains that other properties hand over to (tagged onto those properties only)
VERUS_FN_EXTRA = {'bititer_next': ['C05', 'C11'], 'u256_get_bit': ['C05', 'C11'], 'u256_bits': ['C05', 'C11'], 'fq_into_u256': ['C05', 'C11'], 'fq_div2': ['C14'], 'div2': ['C14']}

def task_verus(ctx, unit):
    import re, tempfile, shutil
    sys.path.insert(0, os.path.join(VERIF, 'verus'))
    import run as vrun
    exp = open(ctx.rustc_dump('expanded')).read()
    wd = tempfile.mkdtemp(prefix='sm9v_verus_')
    try:
        r = vrun.run_unit(unit, exp, wd)
        full = os.path.join(wd, unit + '_full.rs')
        names = []
        scan = []
        if os.path.exists(full):
            ftxt = open(full).read()
            # one obligation per function item; functions inside a region //@BEGIN marker .. //@END are named by the (unique) marker
            region = None
            for ln in ftxt.split('\n'):
                mb = re.match(r'^//@BEGIN (\w+)', ln)
                if mb:
                    region = mb.group(1)
                    continue
                if ln.startswith('//@END'):
                    region = None
                    continue
                m = re.match(r'^\s*(?:#\[[^\]]*\]\s*)?(?:pub )?(?:const )?(proof fn|fn) (\w+)', ln)
                if m:
                    nm = region if region else m.group(2)
                    if (nm, m.group(1)) not in names:
                        names.append((nm, m.group(1)))
            # mechanical scan for everything that is assumed rather than proved in the verified file
            ext = re.findall(r'#\[verifier::external_body\]\s*(?://@\s*)?\n\s*pub (?:const )?fn (\w+)', ftxt)
            scan.append('assumption scan verus/%s: external_body (assumed contract, ark-ff BigInt; Kani group arkff proves them on the portable code): %s' % (unit, ', '.join(sorted(set(ext))) or 'none'))
            scan.append('assumption scan verus/%s: assume()=%d admit()=%d; termination not proved for: %s' % (
                unit, len(re.findall(r'\bassume\(', ftxt)), len(re.findall(r'\badmit\(', ftxt)),
                ', '.join(re.findall(r'exec_allows_no_decreases_clause\]\s*(?://@\s*)?\n\s*pub fn (\w+)', ftxt)) or 'none'))
    finally:
        shutil.rmtree(wd, ignore_errors=True)
    props = VERUS_PROPS.get(unit, ['C06'])
    obligations = []
    failed_fns = set()
    for e in r.get('errors', []):
        m = re.search(r' in fn (\w+)$', e)
        if m:
            failed_fns.add(m.group(1))
    base = dict(engine='E1 Verus 0.2026.09.13 on the extracted text (erasure: %s)' % r.get('erasure'), backend='Z3 (via Verus)', props=props)
    if r['status'] == 'discharged':
        for n, kind in names:
            obligations.append(dict(base, props=props + VERUS_FN_EXTRA.get(n, []), id='verus/%s/%s' % (unit, n), status='discharged', function=n, seconds=round(r['seconds'] / max(1, len(names)), 3),
                                    detail=('real function body: requires/ensures, loop invariants, overflow and index checks' if n in r.get('functions', []) else ('lemma' if kind == 'proof fn' else 'helper with contract'))))
    else:
        tgt = r.get('functions') or [unit]
        for n in tgt:
            if r['status'] == 'failed':
                # Verus ran: functions without an error are verified, those named in an error failed
                # (a failure that cannot be attributed to one of the extracted functions - e.g. in a lemma - fails them all)
                attributed = failed_fns & set(tgt)
                st = 'failed' if (n in failed_fns or not attributed) else 'discharged'
            else:
                st = 'undecided'
            obligations.append(dict(base, props=props + VERUS_FN_EXTRA.get(n, []), id='verus/%s/%s' % (unit, n), status=st, function=n, seconds=r.get('seconds', 0),
                                    detail=(r.get('detail') or '')[:600] + ' [annotation re-attached to the edited text]' * (r.get('erasure') == 'merged')))
    return dict(obligations=obligations, notes=scan + r.get('notes', []))

# ---------------------------------------------------------------------------------------------
# E2: Kani on a scratch copy of the real crate

KANI_GROUPS = {
    'limbs_linear': dict(harnesses=['u256_add_exact', 'u256_sub_exact', 'u256_neg_exact', 'u256_mul2_exact', 'u256_div2_exact',
                                    'u256_subtract_modulus_exact', 'u256_set_get_bit'], props=['C06', 'C07', 'C18', 'C13'], timeout=600),
    'field_linear': dict(harnesses=['fq_add_exact', 'fq_sub_exact', 'fq_neg_exact', 'fq_double_exact', 'fr_add_exact', 'fr_sub_exact', 'fr_neg_exact', 'fr_double_exact', 'fq_div2_exact', 'fq_new_range', 'fr_new_range'],
                         props=['C06', 'C07', 'C18', 'C14', 'C12'], timeout=600),
    'bytes': dict(harnesses=['u256_from_slice_total', 'u256_to_big_endian_total', 'u512_from_slice_total'], props=['C13', 'C18', 'C08', 'C10'], timeout=900),
    'dec_quick': dict(harnesses=['g1_from_slice_wrong_length', 'g1_from_uncompressed_wrong_length', 'g1_from_compressed_wrong_length',
                                 'g2_from_slice_wrong_length', 'g2_from_uncompressed_wrong_length', 'g2_from_compressed_wrong_length',
                                 'g1_from_slice_modular', 'g1_from_uncompressed_modular', 'g1_from_compressed_modular',
                                 'g2_from_slice_modular', 'g2_from_uncompressed_modular', 'g2_from_compressed_modular'], props=['C08', 'C18', 'C09'], timeout=900),
    'enc': dict(harnesses=['g1_to_slice_layout', 'g1_to_uncompressed_layout', 'g1_to_compressed_layout',
                           'g2_to_slice_layout', 'g2_to_uncompressed_layout', 'g2_to_compressed_layout',
                           'fq12_to_slice_layout', 'fq2_to_slice_layout'], props=['C10', 'C18', 'C11', 'C12', 'C02'], timeout=900),
    'arkff': dict(harnesses=['ark_add_with_carry_contract', 'ark_sub_with_borrow_contract', 'ark_ord_contract', 'ark_mul2_div2_contract', 'ark_misc_contract', 'ark_eq_contract', 'ark_b512_contract'],
                  props=['C06', 'C07', 'C13', 'C12'], timeout=900),
    'dispatch': dict(harnesses=['fr_from_slice_dispatch_lo', 'fr_from_slice_dispatch_hi', 'fq_from_slice_dispatch_lo', 'fq_from_slice_dispatch_hi',
                                'fr_from_hash_total', 'fq_to_big_endian_total'], props=['C13', 'C18'], timeout=1200),
    'dec_strict': dict(harnesses=['g1_from_slice_strict', 'g1_from_uncompressed_strict', 'g1_from_compressed_strict',
                                  'g2_from_slice_strict', 'g2_from_uncompressed_strict', 'g2_from_compressed_strict',
                                  'g1_from_compressed_parity', 'g2_from_compressed_parity'], props=['C08', 'C18'], timeout=2400),
}

def kani_scratch(ctx):
    """scratch copy of /repo with the harness module injected and ark-ff built without asm (A6)"""
    import re, shutil
    dst = ctx.scratch_copy('kani')
    ct = os.path.join(dst, 'Cargo.toml')
    t = open(ct).read()
    t2 = re.sub(r'ark-ff\s*=\s*\{\s*version\s*=\s*"([^"]*)"\s*,\s*features\s*=\s*\[\s*"asm"\s*\]\s*\}', r'ark-ff = { version = "\1" }', t)
    open(ct, 'w').write(t2)
    shutil.copy(os.path.join(VERIF, 'kani', 'harness.rs'), os.path.join(dst, 'src', 'verif_kani.rs'))
    with open(os.path.join(dst, 'src', 'lib.rs'), 'a') as fh:
        fh.write('\n#[cfg(kani)]\nmod verif_kani;\n')
    return dst

def kani_playback(dst, env, harness, vals=None, timeout=1500):
    """Replay of a Kani counterexample on the REAL code: Kani's concrete playback turns the CBMC counterexample into a unit test that
    calls the harness (hence the real functions of the crate) natively with those values.  Returns dict(confirmed, vals, output).
    With `vals` given (from a replay file) the test is injected directly instead of asking CBMC again."""
    import re
    src = os.path.join(dst, 'src', 'verif_kani.rs')
    if vals is None:
        cmd = ['cargo', 'kani', '-Z', 'stubbing', '-Z', 'unstable-options', '-Z', 'concrete-playback', '--concrete-playback=inplace',
               '--harness', harness, '--output-format', 'terse']
        try:
            subprocess.run(cmd, cwd=dst, env=env, capture_output=True, text=True, timeout=timeout)
        except subprocess.TimeoutExpired:
            return dict(confirmed=False, vals=None, output='concrete playback generation timed out')
        txt = open(src).read()
        m = re.search(r'fn (kani_concrete_playback_%s_\w+)\(\) \{\s*let concrete_vals: Vec<Vec<u8>> = vec!\[(.*?)\];\s*kani::concrete_playback_run' % re.escape(harness), txt, re.S)
        if not m:
            return dict(confirmed=False, vals=None, output='Kani produced no concrete playback test for this failure')
        vals = [[int(x) for x in v.split(',') if x.strip()] for v in re.findall(r'vec!\[([^\]]*)\]', m.group(2))]
        test = m.group(1)
    else:
        test = 'kani_concrete_playback_%s_replay' % harness
        body = ',\n'.join('        vec![%s]' % ', '.join(str(b) for b in v) for v in vals)
        with open(src, 'a') as fh:
            fh.write('\n#[test]\nfn %s() {\n    let concrete_vals: Vec<Vec<u8>> = vec![\n%s\n    ];\n    kani::concrete_playback_run(concrete_vals, %s);\n}\n' % (test, body, harness))
    env2 = dict(env)
    env2['CARGO_TARGET_DIR'] = os.path.join(prep.CACHE, 'target_kani_playback')
    try:
        p = subprocess.run(['cargo', 'kani', 'playback', '-Z', 'concrete-playback', '--', test], cwd=dst, env=env2, capture_output=True, text=True, timeout=timeout)
    except subprocess.TimeoutExpired:
        return dict(confirmed=False, vals=vals, output='native playback timed out')
    out = p.stdout + p.stderr
    ran = re.search(r'test result: (ok|FAILED)\. (\d+) passed; (\d+) failed', out)
    confirmed = bool(ran and ran.group(1) == 'FAILED' and int(ran.group(3)) >= 1)
    pm = re.search(r"panicked at ([^\n]*)\n([^\n]*)", out)
    return dict(confirmed=confirmed, vals=vals, output=(pm.group(0) if pm else out[-400:]).replace('\n', ' | ')[:500])

def task_kani(ctx, group):
    g = KANI_GROUPS[group]
    obligations = []
    with ctx.lock('kani'):
        dst = kani_scratch(ctx)
        out_json = '/tmp/sm9v_kani/out_%s.json' % group
        if os.path.exists(out_json):
            os.remove(out_json)
        env = dict(os.environ)
        env['CARGO_TARGET_DIR'] = os.path.join(prep.CACHE, 'target_kani')
        env['CARGO_NET_OFFLINE'] = 'true'
        cmd = ['cargo', 'kani', '-Z', 'stubbing', '-Z', 'unstable-options', '-j', str(min(8, len(g['harnesses']))),
               '--harness-timeout', '%ds' % g['timeout'], '--export-json', out_json, '--output-format', 'terse']
        for h in g['harnesses']:
            cmd += ['--harness', h]
        t0 = time.time()
        try:
            p = subprocess.run(cmd, cwd=dst, env=env, capture_output=True, text=True, timeout=g['timeout'] + 600)
            log = (p.stdout + p.stderr)[-6000:]
        except subprocess.TimeoutExpired as e:
            log = 'cargo kani timed out'
            p = None
        res = {}
        cbmc = {}
        if os.path.exists(out_json):
            try:
                d = json.load(open(out_json))
                for r in d.get('verification_results', {}).get('results', []):
                    res[r['harness_id'].split('::')[-1]] = r
                for c in d.get('cbmc', []):
                    cbmc[c['harness_id'].split('::')[-1]] = c
            except Exception as e:
                log += '\njson: %r' % (e,)
        compile_failed = p is not None and p.returncode != 0 and not res
        for h in g['harnesses']:
            r = res.get(h)
            o = dict(id='kani/' + h, engine='E2 Kani 0.68 (CBMC 6.11) on the real crate', function=h, props=g['props'],
                     backend='CBMC + ' + str(cbmc.get(h, {}).get('configuration', {}).get('solver', 'cadical')))
            if r is None:
                o.update(status='undecided', seconds=0, detail=('build of the harness crate failed: ' if compile_failed else 'no result (timeout / out of memory): ') + log[-700:].replace('\n', ' | '))
            else:
                checks = r.get('checks', [])
                failed = [c for c in checks if c.get('status') in ('Failure', 'Failed')]
                undet = [c for c in checks if c.get('status') in ('Undetermined',)]
                o['seconds'] = r.get('duration_ms', 0) / 1000.0
                o['checks'] = len(checks)
                if r.get('status') == 'Success':
                    o.update(status='discharged', detail='%d checks (assertions + overflow/index/unwrap/debug_assert) proved; unwinding assertions on' % len(checks))
                elif failed and not any('unwinding' in (c.get('description') or '') for c in failed):
                    o.update(status='refuted', detail='; '.join('%s @ %s:%s' % (c.get('description'), os.path.basename(str(c.get('location', {}).get('file'))), c.get('location', {}).get('line')) for c in failed[:4]))
                else:
                    o.update(status='undecided', detail='CBMC did not decide (%s): %s' % (r.get('status'), '; '.join(str(c.get('description')) for c in (failed + undet)[:3])))
            obligations.append(o)
        # replay the verifier's counterexample of every refuted harness on the real code (native execution of the harness)
        violations = []
        for o in obligations:
            if o['status'] != 'refuted':
                continue
            try:
                pb = kani_playback(dst, env, o['function'])
            except Exception as e:
                pb = dict(confirmed=False, vals=None, output='playback failed: %r' % (e,))
            o['playback'] = pb['output']
            if pb['confirmed']:
                violations.append(dict(obligation=o['id'], props=g['props'], input_class='kani-counterexample',
                                       summary='Kani counterexample of %s replayed natively on the real code: %s' % (o['function'], pb['output'][:200]),
                                       replay=dict(kind='kani', harness=o['function'], group=group, concrete_vals=pb['vals'], failed_checks=o['detail'], native_output=pb['output'])))
        import shutil
        shutil.rmtree(dst, ignore_errors=True)
    return dict(obligations=obligations, violations=violations)

# ---------------------------------------------------------------------------------------------
def setup():
    """MANIFEST.setup_cmd: build what can be built ahead of time (offline)."""
    import driver
    rc = 0
    try:
        driver.build('debug')
        driver.build('release')
        print('replay driver built (debug + release)')
    except Exception as e:
        print('setup: replay driver build failed: %s' % e)
        rc = 1
    try:
        ctx = prep.Ctx()
        ctx.rustc_dump('mir')
        print('rustc MIR dump ok')
    except Exception as e:
        print('setup: MIR dump failed: %s' % e)
        rc = 1
    return rc
