"""Contract-directed search for the pairing entry points (C01, C02, C03, C11, C16) on the real code through the public API,
against an independent textbook implementation of the SM9 R-ate pairing (spec/sm9spec.py: affine Miller loop on E(F_q^12),
plain exponentiation by (q^12-1)/r), which reproduces the standard's published test vector.  Never counted as proof."""
import os, sys, random
HERE = os.path.dirname(os.path.abspath(__file__))
sys.path.insert(0, os.path.join(HERE, '..', 'spec'))
sys.path.insert(0, os.path.join(HERE, '..', 'mirvc'))
import sm9spec as S
from tower import mk
from search_groups import Grp, canon_jac

Q, R = S.Q, S.R_ORDER
ONE_BYTES = None

def one_bytes():
    global ONE_BYTES
    if ONE_BYTES is None:
        ONE_BYTES = S.gt_bytes(S.tw_one('Fq12'))
    return ONE_BYTES

def search(drv, seed, tier='quick'):
    rnd = random.Random(seed * 2654435761 % (1 << 32) + 11)
    stats = {}
    viols = []
    def count(k, n=1):
        stats[k] = stats.get(k, 0) + n
    def bad(fid, fn, args, exp, obs, failure):
        if not any(v['fid'] == fid and v['failure'] == failure for v in viols) and len(viols) < 30:
            viols.append(dict(fid=fid, hook=fn, args=[a.hex() for a in args], expected=exp, observed=obs, failure=failure))
    G1g, G2g = Grp('g1'), Grp('g2')
    # boundary scalars on BOTH sides (the generator itself and its negative are where caches / shortcuts are keyed)
    pairs = [(1, 1), (2, 3), (R - 1, 5), (1, R - 1), (R - 1, R - 1), (3, R - 2), (R - 2, 1), (rnd.randrange(1, R), rnd.randrange(1, R))]
    if tier == 'thorough':
        pairs += [(rnd.randrange(1, R), rnd.randrange(1, R)) for _ in range(6)] + [(1 << 64, (1 << 128) + 5), (R - 2, R - 1)]
    oracle = {}
    def e_spec(a, b):
        key = (a * b) % R
        if key not in oracle:
            if 'base' not in oracle:
                oracle['base'] = S.rate_pairing(S.P1, S.P2)
            # bilinearity of the specification: e(aP1, bP2) = e(P1,P2)^(ab); cross-checked directly for the first pairs
            oracle[key] = S.pow_num(S.NUM, 'Fq12', oracle['base'], key)
        return oracle[key]
    # direct evaluation of the textbook pairing on two non-trivial pairs (validates the use of bilinearity in the oracle)
    for a, b in pairs[1:3]:
        direct = S.rate_pairing(S.G1C.mul(a, S.P1), S.G2C.mul(b, S.P2))
        if direct != e_spec(a, b):
            raise RuntimeError("specification oracle inconsistent")
    reqs = []
    for a, b in pairs:
        P = S.G1C.mul(a % R, S.P1); Qp = S.G2C.mul(b % R, S.P2)
        want = S.gt_bytes(e_spec(a, b))
        for lp, JP in G1g.reps(P, rnd):
            for lq, JQ in G2g.reps(Qp, rnd):
                args = [canon_jac('Fq', JP), canon_jac('Fq2', JQ)]
                for ep in ('pairing', 'fast_pairing', 'prepared_pairing'):
                    reqs.append((ep, lp + '/' + lq, args, want))
    # identity forms on either side: every entry point gives one
    P = S.G1C.mul(7, S.P1); Qp = S.G2C.mul(9, S.P2)
    for li, JI in G1g.reps(None, rnd):
        for lq, JQ in G2g.reps(Qp, rnd)[:2] + G2g.reps(None, rnd)[:1]:
            for ep in ('pairing', 'fast_pairing', 'prepared_pairing'):
                reqs.append((ep, li + '/' + lq, [canon_jac('Fq', JI), canon_jac('Fq2', JQ)], one_bytes()))
    for li, JI in G2g.reps(None, rnd):
        for lp, JP in G1g.reps(P, rnd)[:2]:
            for ep in ('pairing', 'fast_pairing', 'prepared_pairing'):
                reqs.append((ep, lp + '/' + li, [canon_jac('Fq', JP), canon_jac('Fq2', JI)], one_bytes()))
    res = drv.batch([('pub::' + ep, args) for ep, _, args, _ in reqs])
    for (ep, lbl, args, want), r in zip(reqs, res):
        count('pairing::' + ep)
        fid = 'lib::' + ep
        if r[0] != 'ok':
            bad(fid, 'pub::' + ep, args, want.hex()[:64], ' '.join(r), 'panic-' + lbl)
        elif r[1][0] != want:
            bad(fid, 'pub::' + ep, args, want.hex()[:64], r[1][0].hex()[:64], ('identity-' if want == one_bytes() else 'value-') + lbl)
    # a prepared value reused for several G1 inputs, in two orders, equals the individual results
    Qj = G2g.reps(S.G2C.mul(11, S.P2), rnd)[1][1]
    g1s = [canon_jac('Fq', G1g.reps(S.G1C.mul(k, S.P1), rnd)[i % 3][1]) for i, k in enumerate((1, 2, 5, R - 1))] + [canon_jac('Fq', G1g.reps(None, rnd)[1][1])]
    q = canon_jac('Fq2', Qj)
    for order in (g1s, list(reversed(g1s))):
        r = drv.call('pub::prepared_pairing', order[0], q, *order[1:])
        count('pairing::prepared_reuse')
        if r[0] != 'ok':
            bad('lib::prepared_pairing', 'pub::prepared_pairing', [order[0], q] + order[1:], 'results', ' '.join(r), 'panic-reuse')
            continue
        for g, out in zip(order, r[1]):
            single = drv.call('pub::pairing', g, q)
            if single[0] != 'ok' or single[1][0] != out:
                bad('lib::prepared_pairing', 'pub::prepared_pairing', [order[0], q] + order[1:], 'equal to pairing() of each input', out.hex()[:64], 'reuse-differs')
    # Gt: group laws and exponentiation on pairing values (C11, C01 last clause)
    g = e_spec(2, 3); h = e_spec(5, 7)
    ge, he = S.tw_enc('Fq12', g), S.tw_enc('Fq12', h)
    Rinv = None
    greqs = []
    def fr(k):
        return S.be(S.mont(k % R, R))
    greqs.append(('fq12::mul', [ge, he], S.tw_enc('Fq12', S.NUM.mul('Fq12', g, h)), 'product'))
    greqs.append(('fq12::mul', [he, ge], S.tw_enc('Fq12', S.NUM.mul('Fq12', g, h)), 'commutative'))
    greqs.append(('fq12::mul', [ge, S.tw_enc('Fq12', S.tw_one('Fq12'))], ge, 'times-one'))
    greqs.append(('fq12::mul', [S.tw_enc('Fq12', S.tw_one('Fq12')), ge], ge, 'one-times'))
    ginv = S.tw_inv('Fq12', g)
    greqs.append(('fq12::mul', [ge, S.tw_enc('Fq12', ginv)], S.tw_enc('Fq12', S.tw_one('Fq12')), 'times-inverse'))
    for k in (0, 1, 2, R - 1, R - 2, 1 << 64, (1 << 128) + 32, (1 << 192) + 5, 3 << 64, rnd.randrange(R)):
        greqs.append(('fq12::pow_fr', [ge, fr(k)], S.tw_enc('Fq12', S.pow_num(S.NUM, 'Fq12', g, k % R)), 'pow-%x' % (k if k < 1 << 70 else k >> 60)))
    gres = drv.batch([(fn, a) for fn, a, _, _ in greqs])
    for (fn, a, want, lbl), r in zip(greqs, gres):
        count('gt::' + fn.split('::')[1])
        if r[0] != 'ok' or r[1][0] != want:
            bad('gt::' + fn.split('::')[1], fn, a, want.hex()[:64], (r[1][0].hex()[:64] if r[0] == 'ok' else ' '.join(r)), lbl)
    # the same through the public Gt wrapper (Gt::pow / * / inverse / == / to_slice of lib.rs)
    pa = canon_jac('Fq', S.jac('Fq', S.G1C.mul(2, S.P1))); pb = canon_jac('Fq', S.jac('Fq', S.G1C.mul(5, S.P1)))
    qa = canon_jac('Fq2', S.jac('Fq2', S.G2C.mul(3, S.P2)))
    gg = e_spec(2, 3); hh = e_spec(5, 3)
    for k in (0, 1, 2, R - 1, 1 << 64, (1 << 128) + 32, rnd.randrange(R)):
        r = drv.call('pub::gt_ops', pa, qa, pb, S.be(k % R))
        count('gt::public_wrapper')
        if r[0] != 'ok':
            bad('lib::gt_ops', 'pub::gt_ops', [pa, qa, pb, S.be(k % R)], 'results', ' '.join(r), 'panic')
            continue
        o = r[1]
        prod = S.gt_bytes(S.NUM.mul('Fq12', gg, hh))
        exp = [('mul', prod), ('mul-commuted', prod), ('times-one', S.gt_bytes(gg)), ('one-times', S.gt_bytes(gg)),
               ('pow-%x' % (k if k < 1 << 70 else k >> 60), S.gt_bytes(S.pow_num(S.NUM, 'Fq12', gg, k % R))), ('inverse', S.gt_bytes(S.tw_inv('Fq12', gg))),
               ('times-inverse', one_bytes()), ('eq', bytes([gg == hh])), ('one', one_bytes()), ('to_slice', S.gt_bytes(gg))]
        for (nm, e), got in zip(exp, o):
            if got != e:
                bad('lib::gt_' + nm.split('-')[0], 'pub::gt_ops', [pa, qa, pb, S.be(k % R)], e.hex()[:64], got.hex()[:64], nm)
    r = drv.call('fq12::inverse', ge)
    count('gt::inverse')
    if r[0] != 'ok' or r[1][0] != b'\x01' or r[1][1] != S.tw_enc('Fq12', ginv):
        bad('gt::inverse', 'fq12::inverse', [ge], 'Some(g^-1)', str(r)[:80], 'inverse')
    r = drv.call('fq12::to_slice', ge)
    count('gt::to_slice')
    if r[0] != 'ok' or r[1][0] != S.gt_bytes(g):
        bad('gt::to_slice', 'fq12::to_slice', [ge], S.gt_bytes(g).hex()[:64], str(r)[:80], 'to_slice')
    return stats, viols
