#!/bin/sh
# usage: stash_seed.sh C04   -- copy a sub-agent's deliverables into /verif/seeded/<id>_<mut>/
id=$1
for m in mutA mutB; do
  [ -d /tmp/wt_$id/MUTATION/$m ] || continue
  mkdir -p /verif/seeded/${id}_$m
  cp -r /tmp/wt_$id/MUTATION/$m/* /verif/seeded/${id}_$m/
  rm -rf /verif/seeded/${id}_$m/demo/target
done
